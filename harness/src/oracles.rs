//! Search oracles: the property itself, evaluated on the implementation by an independent
//! reference written from the documentation.  A failure here is a violation with a replay.
use crate::gens::c12::{prog_text, Ins};
use crate::wire::*;
use geodesy::authoring::*;

pub fn exec_oracle(kind: &str, fields: &[&str]) -> String {
    match kind {
        "S_C12" => oracle_c12(fields),
        "S_C12R" => {
            // well-formedness of a stack sub-command: "1" = must be accepted, "0" = must be rejected
            let def = unescape(fields[1]);
            let got = Minimal::default().op(&def).is_ok();
            if got == (fields[0] == "1") {
                "oracle pass".to_string()
            } else {
                format!("oracle FAIL '{def}' {} at instantiation", if got { "accepted although ill-formed" } else { "rejected although well-formed" })
            }
        }
        "S_C02" => oracle_c02(fields),
        "S_C03" => oracle_c03(fields),
        "S_C04" => oracle_c04(fields),
        "S_C07" => oracle_c07(fields),
        "S_C07M" => oracle_c07m(fields),
        "S_C20" => oracle_c20(fields),
        "S_C19A" => oracle_c19a(fields),
        "S_C19D" => oracle_c19d(fields),
        "S_C19C" => oracle_c19c(fields),
        "S_C18" => oracle_c18(fields),
        "S_C18R" => oracle_c18r(fields),
        "S_C18T" => oracle_c18t(fields),
        "S_C17" => oracle_c17(fields),
        "S_C17E" => oracle_c17e(fields),
        "S_C16" => oracle_c16(fields),
        "S_C16T" => oracle_c16t(fields),
        "S_C08" => oracle_c08(fields),
        "S_C08L" => oracle_c08l(fields),
        "S_C08N" => oracle_c08n(fields),
        "S_C08O" => oracle_c08o(fields),
        "S_C08D" => oracle_c08d(fields),
        "S_C04F" => oracle_c04f(fields),
        "S_C05" => oracle_c05(fields),
        "S_C06" => oracle_c06(fields),
        "S_C07T" => oracle_c07t(fields),
        "S_C18S" => oracle_c18s(fields),
        "S_C18F" => oracle_c18f(fields),
        "S_C18P" => oracle_c18p(fields),
        "S_C18U" => {
            let spec = crate::exec::CtxSpec { kind: fields[0].to_string(), resources: vec![], users: vec![] };
            let name = unescape(fields[1]);
            crate::exec::with_ctx(&spec, |ctx| {
                for def in [name.clone(), format!("{name} inv"), format!("addone | {name}")] {
                    if ctx.op(&def).is_ok() {
                        return format!("oracle FAIL {:?} instantiates although {name} names nothing", def);
                    }
                }
                "oracle pass".to_string()
            })
        }
        "S_C14H" => {
            // one Minimal and one Plain context, the same definitions instantiated in them one after the other (each
            // context keeps what it instantiated): every one of them is the same operation in both, whatever was
            // instantiated before it
            let n: usize = fields[0].parse().unwrap_or(0);
            let defs: Vec<String> = (0..n).map(|i| unescape(fields[1 + i])).collect();
            let data = parse_data(fields[1 + n]);
            let mut m = Minimal::new();
            let mut p = Plain::new();
            let mut handles = vec![];
            for def in &defs {
                handles.push((m.op(def), p.op(def)));
            }
            // (applied after all of them have been instantiated, and in reverse order)
            for (def, (hm, hp)) in defs.iter().zip(handles.iter()).rev() {
                match (hm, hp) {
                    (Ok(hm), Ok(hp)) => {
                        for fwd in [true, false] {
                            let dir = || if fwd { Fwd } else { Inv };
                            let (mut dm, mut dp) = (data.clone(), data.clone());
                            let nm = m.apply(*hm, dir(), &mut dm).unwrap_or(usize::MAX);
                            let np = p.apply(*hp, dir(), &mut dp).unwrap_or(usize::MAX);
                            if nm != np || dm.iter().zip(dp.iter()).any(|(x, y)| !same_bits(x, y)) {
                                return format!("oracle FAIL {def} (number {} of the history): Minimal and Plain differ in the {} direction", defs.iter().position(|d| d == def).unwrap_or(0), if fwd { "forward" } else { "inverse" });
                            }
                        }
                    }
                    (Err(_), Err(_)) => {}
                    _ => return format!("oracle FAIL {def}: instantiable in one of Minimal / Plain only"),
                }
            }
            "oracle pass".to_string()
        }
        "S_C16R" => {
            // the last of repeated keys wins: a definition with a key given several times is the definition with
            // the last occurrence alone (both instantiable or both refused; the same values in both directions)
            let (a, b) = (unescape(fields[0]), unescape(fields[1]));
            let data = parse_data(fields[2]);
            for fwd in [true, false] {
                match (run_kind("default", &a, fwd, &data), run_kind("default", &b, fwd, &data)) {
                    (Ok((na, fa)), Ok((nb, fb))) => {
                        if na != nb || fa.iter().zip(fb.iter()).any(|(x, y)| !same_bits(x, y)) {
                            return format!("oracle FAIL {a} is not {b} ({})", if fwd { "forward" } else { "inverse" });
                        }
                    }
                    (Err(_), Err(_)) => {}
                    (Ok(_), Err(e)) => return format!("oracle FAIL {a} is accepted, {b} is refused ({e})"),
                    (Err(e), Ok(_)) => return format!("oracle FAIL {a} is refused ({e}), {b} is accepted"),
                }
            }
            "oracle pass".to_string()
        }
        "S_C08R" => {
            // a datum shift grid with corrections that change quickly from node to node: the inverse undoes the
            // forward shift to the accuracy the iteration is run to, not to that of a smooth grid
            let text = unescape(fields[0]);
            let g = match BaseGrid::gravsoft(text.as_bytes()) {
                Ok(g) => g,
                Err(e) => return format!("oracle FAIL well-formed grid rejected ({})", err_class(&e)),
            };
            let mut ctx = crate::exec::GridCtx::new();
            ctx.grids.insert("rough.grid".to_string(), std::sync::Arc::new(g));
            let Ok(op) = ctx.op("gridshift grids=rough.grid") else { return "oracle FAIL gridshift over a decoded grid not instantiable".to_string() };
            let pts: Vec<Coor4D> = crate::exec::parse_points(fields[1]).iter().map(|p| Coor4D([p[0], p[1], 10., 2000.])).collect();
            let mut d = pts.clone();
            let n1 = ctx.apply(op, Fwd, &mut d).unwrap_or(0);
            let mut back = d.clone();
            let n2 = ctx.apply(op, Inv, &mut back).unwrap_or(0);
            if n1 != pts.len() || n2 != pts.len() {
                return format!("oracle FAIL gridshift over a rough grid: {n1} / {n2} of {} points inside it transformed", pts.len());
            }
            for ((p, f), b) in pts.iter().zip(d.iter()).zip(back.iter()) {
                let miss = (b[0] - p[0]).hypot(b[1] - p[1]);
                if !(miss <= 1e-11) {
                    return format!("oracle FAIL gridshift over a rough grid: ({}, {}) shifted by ({:e}, {:e}) comes back {:e} rad off", p[0], p[1], f[0] - p[0], f[1] - p[1], miss);
                }
            }
            "oracle pass".to_string()
        }
        "S_C18L" => {
            // contexts of their own on several threads instantiate operators over the same grid while another thread
            // clears the shared grid cache: a grid that exists is found, every time
            let def = unescape(fields[0]);
            let stop = std::sync::atomic::AtomicBool::new(false);
            let stop_ref = &stop;
            let def_ref = &def;
            let problems: Vec<String> = std::thread::scope(|s| {
                let clearer = s.spawn(move || {
                    while !stop_ref.load(std::sync::atomic::Ordering::Relaxed) {
                        Plain::clear_grids();
                        std::thread::yield_now();
                    }
                });
                let mut hs = vec![];
                for t in 0..6 {
                    hs.push(s.spawn(move || {
                        let t0 = std::time::Instant::now();
                        let mut round = 0;
                        while t0.elapsed().as_millis() < 1200 {
                            let mut ctx = Plain::new();
                            match ctx.op(def_ref) {
                                Ok(op) => {
                                    let mut d = vec![Coor4D([0.2, 0.96, 0., 0.])];
                                    let _ = ctx.apply(op, Fwd, &mut d);
                                }
                                Err(e) => return Some(format!("thread {t} round {round}: {def_ref} not instantiable ({e}) while another thread clears the grid cache")),
                            }
                            round += 1;
                        }
                        None
                    }));
                }
                let out: Vec<String> = hs.into_iter().filter_map(|h| h.join().unwrap_or(Some("thread panicked".to_string()))).collect();
                stop_ref.store(true, std::sync::atomic::Ordering::Relaxed);
                let _ = clearer.join();
                out
            });
            match problems.first() {
                Some(p) => format!("oracle FAIL {p}"),
                None => "oracle pass".to_string(),
            }
        }
        "S_C18C" => {
            // a name with a colon is a macro's name: an operator a user registers under such a name is never looked at
            // (the macro of that name is what the name means; without one the name is unknown)
            let kind = fields[0];
            let spec = crate::exec::CtxSpec {
                kind: kind.to_string(),
                // (`noop` is taken by a user's operator that adds 2: the body of `m:n` means that operator)
                resources: vec![("m:x".to_string(), "addone".to_string()), ("m:n".to_string(), "noop".to_string()), ("m:p".to_string(), "noop | addone".to_string())],
                users: vec![("m:x".to_string(), "u:add2".to_string()), ("geo:in".to_string(), "u:add2".to_string()), ("n:c".to_string(), "u:add2".to_string()), ("noop".to_string(), "u:add2".to_string())],
            };
            let data = vec![Coor4D([55., 12., 0., 0.])];
            crate::exec::with_ctx(&spec, |ctx| {
                // (the built-in adaptor macros are in the contexts made by `new()` only)
                let adaptor = if kind.ends_with("new") { Some(12f64.to_radians()) } else { None };
                for (def, want) in [("m:x", Some(56.0)), ("addone | m:x", Some(57.0)), ("geo:in", adaptor), ("n:c", None), ("addone | n:c", None), ("noop", Some(57.0)), ("m:n", Some(57.0)), ("m:n inv", Some(53.0)), ("addone | m:n", Some(58.0)), ("m:p", Some(58.0))] {
                    match (ctx.op(def), want) {
                        (Ok(op), Some(w)) => {
                            let mut d = data.clone();
                            let _ = ctx.apply(op, Fwd, &mut d);
                            if !((d[0][0] - w).abs() < 1e-12) {
                                return format!("oracle FAIL {def}: {} where the macro of that name gives {w} (an operator was registered under the name)", d[0][0]);
                            }
                        }
                        (Err(_), None) => {}
                        (Ok(_), None) => return format!("oracle FAIL {def} resolves to the operator a user registered under a name with a colon"),
                        (Err(e), Some(_)) => return format!("oracle FAIL {def} not instantiable ({e})"),
                    }
                }
                "oracle pass".to_string()
            })
        }
        "S_C04E" => {
            // an invocation and its expansion written out: refused alike or accepted alike, and then the same operation
            let Some((spec, rest)) = crate::exec::parse_ctx(fields) else { return "bad-case".to_string() };
            let (a, b) = (unescape(rest[0]), unescape(rest[1]));
            let data = parse_data(rest[2]);
            crate::exec::with_ctx(&spec, |ctx| {
                match (ctx.op(&a), ctx.op(&b)) {
                    (Err(_), Err(_)) => "oracle pass both refused".to_string(),
                    (Ok(_), Err(e)) => format!("oracle FAIL {a} is accepted, its expansion {b} is refused ({e})"),
                    (Err(e), Ok(_)) => format!("oracle FAIL {a} is refused ({e}), its expansion {b} is accepted"),
                    (Ok(oa), Ok(ob)) => {
                        for fwd in [true, false] {
                            let (mut da, mut db) = (data.clone(), data.clone());
                            let na = ctx.apply(oa, if fwd { Fwd } else { Inv }, &mut da).unwrap_or(usize::MAX);
                            let nb = ctx.apply(ob, if fwd { Fwd } else { Inv }, &mut db).unwrap_or(usize::MAX);
                            if na != nb || da.iter().zip(db.iter()).any(|(x, y)| !same_bits(x, y)) {
                                return format!("oracle FAIL {a} is not its expansion {b} ({})", if fwd { "forward" } else { "inverse" });
                            }
                        }
                        "oracle pass".to_string()
                    }
                }
            })
        }
        "S_C16I" => {
            // whole-number parameters parse to exactly the value written, or are refused: the reference is the reading of
            // the text as an `i64` / `usize`, nothing in between (no detour through a float)
            let (key, text) = (fields[0], unescape(fields[1]));
            let spec = crate::exec::CtxSpec { kind: "default".to_string(), resources: vec![], users: vec![("probe".to_string(), "u:probe".to_string())] };
            crate::exec::with_ctx(&spec, |ctx| {
                let r = ctx.op(&format!("probe {key}={text}"));
                let want_i = text.trim().parse::<i64>().ok();
                let want_n = text.trim().parse::<usize>().ok();
                match (key, r) {
                    ("integer", Ok(op)) => match (want_i, ctx.params(op, 0).ok().and_then(|p| p.integer("integer").ok())) {
                        (Some(w), Some(g)) if w == g => "oracle pass".to_string(),
                        (w, g) => format!("oracle FAIL integer={text} is accepted as {g:?}, the text says {w:?}"),
                    },
                    ("integer", Err(_)) => if want_i.is_none() || text.trim() != text || text.starts_with('+') { "oracle pass refused".to_string() } else { format!("oracle FAIL integer={text} is refused") },
                    ("natural", Ok(op)) => match (want_n, ctx.params(op, 0).ok().and_then(|p| p.natural("natural").ok())) {
                        (Some(w), Some(g)) if w == g => "oracle pass".to_string(),
                        (w, g) => format!("oracle FAIL natural={text} is accepted as {g:?}, the text says {w:?}"),
                    },
                    ("natural", Err(_)) => if want_n.is_none() || text.trim() != text || text.starts_with('+') { "oracle pass refused".to_string() } else { format!("oracle FAIL natural={text} is refused") },
                    _ => "bad-case".to_string(),
                }
            })
        }
        "S_INVMOD" => {
            // the `inv` modifier, behind or in front of the operator's name, exchanges the two directions of the
            // operator - whatever the operator: `def inv` forward is `def` inverse, and the other way round
            let def = unescape(fields[0]);
            let data = parse_data(fields[1]);
            let plain = run_kind("default", &def, true, &data);
            let Ok((nf, ff)) = plain else { return "oracle pass not instantiable".to_string() };
            let Ok((ni, fi)) = run_kind("default", &def, false, &data) else { return "oracle FAIL inverse application failed".to_string() };
            // (an operator without an inverse - nothing counted, nothing touched - is not what the modifier is for)
            if ni == 0 && !data.is_empty() && fi.iter().zip(data.iter()).all(|(x, y)| same_bits(x, y)) {
                return "oracle pass one-way".to_string();
            }
            for spelled in [format!("{def} inv"), format!("inv {def}")] {
                let a = run_kind("default", &spelled, true, &data);
                let b = run_kind("default", &spelled, false, &data);
                match (a, b) {
                    (Ok((na, fa)), Ok((nb, fb))) => {
                        if na != ni || fa.iter().zip(fi.iter()).any(|(x, y)| !same_bits(x, y)) {
                            return format!("oracle FAIL {spelled} applied forward is not {def} applied in the inverse direction");
                        }
                        if nb != nf || fb.iter().zip(ff.iter()).any(|(x, y)| !same_bits(x, y)) {
                            return format!("oracle FAIL {spelled} applied in the inverse direction is not {def} applied forward");
                        }
                    }
                    _ => return format!("oracle FAIL {def} instantiates, {spelled} does not (or cannot be applied)"),
                }
            }
            "oracle pass".to_string()
        }
        "S_C19U" => oracle_c19u(fields),
        "S_C19K" => oracle_c19k(fields),
        "S_C19T" => {
            // a tuple type of a user (any dimension): the accessors and the arithmetic of the trait's defaults are
            // the element-wise definitions
            fn judge<T: CoordinateTuple + Copy>(t: T, v: &[f64], w: &[f64], f: f64) -> String {
                let same = |a: f64, b: f64| a.to_bits() == b.to_bits() || (a.is_nan() && b.is_nan());
                let n = v.len();
                if t.dim() != n {
                    return format!("oracle FAIL dim() of a tuple of {n} elements is {}", t.dim());
                }
                for i in 0..n + 3 {
                    let want = if i < n { v[i] } else { f64::NAN };
                    if !same(t.nth(i), want) {
                        return format!("oracle FAIL nth({i}) of a user's tuple of {n} elements is {}, stored {}", t.nth(i), want);
                    }
                }
                let firsts = [t.x(), t.y(), t.z(), t.t()];
                for (i, got) in firsts.iter().enumerate() {
                    let want = if i < n { v[i] } else { f64::NAN };
                    if !same(*got, want) {
                        return format!("oracle FAIL accessor {i} of a user's tuple of {n} elements is {got}, stored {want}");
                    }
                }
                let s = t.scale(f);
                for i in 0..n {
                    if !same(s.nth_unchecked(i), v[i] * f) {
                        return format!("oracle FAIL scale({f}): element {i} of {n} is {}, element-wise {}", s.nth_unchecked(i), v[i] * f);
                    }
                }
                let mut other = T::new(0.0);
                other.update(w);
                let mut want = 0.0;
                for i in 0..n {
                    want += v[i] * w[i];
                }
                if !same(t.dot(other), want) {
                    return format!("oracle FAIL dot of tuples of {n} elements is {}, element-wise {}", t.dot(other), want);
                }
                let mut u = t;
                for i in 0..n {
                    u.set_nth(i, w[i]);
                }
                for i in 0..n {
                    if !same(u.nth(i), w[i]) {
                        return format!("oracle FAIL set_nth({i}) then nth({i}) of a user's tuple of {n} elements: {} for {}", u.nth(i), w[i]);
                    }
                }
                "oracle pass".to_string()
            }
            let v: Vec<f64> = fields[0].split(',').map(parse_f).collect();
            let w: Vec<f64> = fields[1].split(',').map(parse_f).collect();
            let f = parse_f(fields[2]);
            if v.len() != w.len() {
                return "bad-case".to_string();
            }
            match v.len() {
                1 => judge(crate::exec::user_tuple::<1>(&v), &v, &w, f),
                2 => judge(crate::exec::user_tuple::<2>(&v), &v, &w, f),
                3 => judge(crate::exec::user_tuple::<3>(&v), &v, &w, f),
                4 => judge(crate::exec::user_tuple::<4>(&v), &v, &w, f),
                5 => judge(crate::exec::user_tuple::<5>(&v), &v, &w, f),
                6 => judge(crate::exec::user_tuple::<6>(&v), &v, &w, f),
                8 => judge(crate::exec::user_tuple::<8>(&v), &v, &w, f),
                _ => "bad-case".to_string(),
            }
        }
        "S_C19O" => {
            // the dm / dms operators: encode (inverse) then decode (forward) returns every position as it was
            let op = fields[0];
            let pts = parse_data(fields[1]);
            let (Ok((n1, enc)), ) = (run_kind("default", op, false, &pts), ) else { return "oracle FAIL dm/dms not instantiable".to_string() };
            let Ok((n2, back)) = run_kind("default", op, true, &enc) else { return "oracle FAIL dm/dms not instantiable".to_string() };
            if n1 != pts.len() || n2 != pts.len() {
                return format!("oracle FAIL {op}: {n1} / {n2} of {} tuples counted", pts.len());
            }
            for ((p, e), b) in pts.iter().zip(enc.iter()).zip(back.iter()) {
                for j in 0..2 {
                    if !((p[j] - b[j]).abs() <= 1e-11 * p[j].abs().max(1.0)) {
                        return format!("oracle FAIL {op}: ({} deg, {} deg) is encoded as ({}, {}) and decoded as ({} deg, {} deg)", p[0].to_degrees(), p[1].to_degrees(), e[0], e[1], b[0].to_degrees(), b[1].to_degrees());
                    }
                }
                if p[2].to_bits() != b[2].to_bits() || p[3].to_bits() != b[3].to_bits() {
                    return format!("oracle FAIL {op}: height or time changed");
                }
            }
            "oracle pass".to_string()
        }
        "S_C09G" => {
            // a grid name that leads to something that is not a file is a grid that is not found, and is found
            // not to be there at once (the workers cap their memory, which turns an endless read into a slow error:
            // the clock tells the two apart)
            let def = unescape(fields[0]);
            let t0 = std::time::Instant::now();
            let mut ctx = Plain::new();
            let r = ctx.op(&def);
            let dt = t0.elapsed();
            match r {
                Ok(_) => format!("oracle FAIL {def} instantiates"),
                Err(e) if err_class(&e) != "NotFound" => format!("oracle FAIL {def} is refused as {} instead of NotFound", err_class(&e)),
                Err(_) if dt.as_millis() > 500 => format!("oracle FAIL {def} takes {} ms to refuse (something was read that is not a file)", dt.as_millis()),
                Err(_) => "oracle pass".to_string(),
            }
        }
        "S_C18X" => {
            // file based macros are looked for in ./geodesy first and in the user's data directory next, in each of them
            // as a file of their own first and as an item of the register next; a register that lacks the item does
            // not end the search
            let dir = std::env::temp_dir().join(format!("gvh-xdg-{}", std::process::id()));
            let res = dir.join("geodesy").join("resources");
            if std::fs::create_dir_all(&res).is_err() {
                return "oracle skip no scratch directory".to_string();
            }
            let tick = "```";
            let _ = std::fs::write(res.join("stupid.md"), format!("# user level\n\n{tick}geodesy:userland\naddone | addone\n{tick}\n\n{tick}geodesy:addthree\nnoop\n{tick}\n"));
            let _ = std::fs::write(res.join("stupid_alone.resource"), "addone inv\n");
            let _ = std::fs::write(res.join("stupid_way.resource"), "noop\n");
            let _ = std::fs::write(res.join("gvuser.md"), format!("{tick}geodesy:one\nhelmert x=7\n{tick}\n"));
            let _ = std::fs::write(res.join("gvuser_one.resource"), "helmert x=8\n");
            let old = std::env::var_os("XDG_DATA_HOME");
            std::env::set_var("XDG_DATA_HOME", &dir);
            let ctx = Plain::new();
            let local_way = std::fs::read_to_string("geodesy/resources/stupid_way.resource").unwrap_or_default().trim().to_string();
            let mut verdict = "oracle pass".to_string();
            for (name, want) in [
                ("stupid:userland", Some("addone | addone".to_string())),   // only in the user's register; the local register lacks it
                ("stupid:alone", Some("addone inv".to_string())),          // only as a user level file
                ("stupid:way", Some(local_way.clone())),                    // in both: ./geodesy first
                ("gvuser:one", Some("helmert x=8".to_string())),           // file before register, within one directory
                ("stupid:nowhere", None),
                ("gvuser:two", None),
            ] {
                let got = ctx.get_resource(name).ok();
                if got != want {
                    verdict = format!("oracle FAIL {name} resolves to {:?} with a user level data directory holding stupid.md (userland, addthree), stupid_alone.resource, stupid_way.resource, gvuser.md (one), gvuser_one.resource; expected {:?}", got, want);
                    break;
                }
            }
            // the local register wins over the user's for an item both have
            if verdict == "oracle pass" {
                if let Ok(t) = ctx.get_resource("stupid:addthree") {
                    if t == "noop" {
                        verdict = "oracle FAIL stupid:addthree comes from the user level register although ./geodesy has it".to_string();
                    }
                }
            }
            match old {
                Some(v) => std::env::set_var("XDG_DATA_HOME", v),
                None => std::env::remove_var("XDG_DATA_HOME"),
            }
            let _ = std::fs::remove_dir_all(&dir);
            verdict
        }
        "S_C18G" => {
            // a grid is a function of the point: what it delivers does not depend on what it was asked before
            let m = parse_f(fields[2]);
            let pts = crate::exec::parse_points(fields[3]);
            let (Ok(g1), Ok(g2)) = (crate::exec::decode_grid(fields[0], fields[1]), crate::exec::decode_grid(fields[0], fields[1])) else { return "oracle FAIL grid not decodable".to_string() };
            let forward: Vec<String> = pts.iter().map(|p| crate::exec::dump_at(g1.at(p, m))).collect();
            let mut backward: Vec<String> = pts.iter().rev().map(|p| crate::exec::dump_at(g2.at(p, m))).collect();
            backward.reverse();
            for (k, p) in pts.iter().enumerate() {
                if forward[k] != backward[k] {
                    return format!("oracle FAIL the grid delivers {} for ({}, {}) after the points before it in the list, {} after the points behind it", forward[k], p[0], p[1], backward[k]);
                }
                let Ok(g3) = crate::exec::decode_grid(fields[0], fields[1]) else { return "oracle FAIL grid not decodable".to_string() };
                let alone = crate::exec::dump_at(g3.at(p, m));
                if alone != forward[k] {
                    return format!("oracle FAIL the grid delivers {} for ({}, {}) after the points before it in the list, {} when asked first", forward[k], p[0], p[1], alone);
                }
            }
            "oracle pass".to_string()
        }
        "S_C16G" => {
            // every documented numeric parameter is read: another value gives another operator (the definitions are
            // written from the documentation, one per operator with all its parameters; a key dropped from a gamut
            // is silently ignored, by the rule for unknown keys)
            let def = unescape(fields[0]);
            let kind = if def.contains("grids=") { "plain" } else { "default" };
            let geo = vec![Coor4D([0.2, 0.95, 100.0, 2020.0]), Coor4D([-0.1, -0.5, 10.0, 2000.5]), Coor4D([0.21, 0.96, 50.0, 2010.0])];
            let cart = vec![Coor4D([3513638.19, 778956.45, 5248216.46, 2020.0]), Coor4D([-2.0e6, 4.0e6, 4.5e6, 2000.5])];
            let deg = vec![Coor4D([55.0, 12.0, 100.0, 2020.0]), Coor4D([-33.0, 151.0, 10.0, 2000.5])];
            let run = |d: &str| -> Option<Vec<Vec<Coor4D>>> {
                let mut out = vec![];
                for data in [&geo, &cart, &deg] {
                    for fwd in [true, false] {
                        match run_kind(kind, d, fwd, data) {
                            Ok((_, r)) => out.push(r),
                            Err(_) => return None,
                        }
                    }
                }
                Some(out)
            };
            let Some(base) = run(&def) else { return format!("oracle FAIL {def} cannot be instantiated") };
            let tokens: Vec<&str> = def.split_whitespace().collect();
            for (i, tok) in tokens.iter().enumerate() {
                let Some((k, v)) = tok.split_once('=') else { continue };
                let Ok(x) = v.parse::<f64>() else { continue };
                if def.contains('|') || ["zone", "padding", "t_obs"].contains(&k) {
                    continue;
                }
                let mut same_everywhere = true;
                for other in [x * 1.25 + 0.25, x - 1.0, -x + 3.0] {
                    let mut t: Vec<String> = tokens.iter().map(|w| w.to_string()).collect();
                    t[i] = format!("{k}={other}");
                    let Some(r) = run(&t.join(" ")) else {
                        same_everywhere = false; // a value the operator refuses: it looked at it
                        break;
                    };
                    if r.iter().zip(base.iter()).any(|(a, b)| a.iter().zip(b.iter()).any(|(p, q)| !same_bits(p, q))) {
                        same_everywhere = false;
                        break;
                    }
                }
                if same_everywhere {
                    return format!("oracle FAIL {def}: the parameter {k} has no effect (three other values give bit-identical results in both directions on three operand sets)");
                }
            }
            "oracle pass".to_string()
        }
        "S_C16N" => {
            // a Texts parameter: the elements between the commas, trimmed, every one of them
            let v = unescape(fields[0]);
            let mut ctx = Minimal::default();
            ctx.register_op("probe", crate::exec::user_ctor("u:probe").unwrap());
            let def = format!("probe names={v}");
            let want: Vec<String> = v.trim().split(',').map(|x| x.trim().to_string()).collect();
            match ctx.op(&def) {
                Err(e) => format!("oracle FAIL {:?} refused ({})", def, err_class(&e)),
                Ok(op) => match ctx.params(op, 0) {
                    Err(_) => "oracle FAIL no parameters".to_string(),
                    Ok(p) => match p.texts("names") {
                        Ok(got) if *got == want => "oracle pass".to_string(),
                        Ok(got) => format!("oracle FAIL {:?}: the list read is {:?}, written are {:?}", def, got, want),
                        Err(_) => format!("oracle FAIL {:?}: no list", def),
                    },
                },
            }
        }
        "S_C16E" => {
            let def = unescape(fields[0]);
            // (second field, when given: the parameter the error has to name)
            let key = fields.get(1).map(|k| unescape(k)).unwrap_or_default();
            match Minimal::default().op(&def) {
                Ok(_) => format!("oracle FAIL {def} was accepted although one of its values is not of the parameter's type"),
                Err(e) if !key.is_empty() => {
                    let named = match &e {
                        Error::BadParam(k, _) => k == &key,
                        Error::MissingParam(k) => k == &key,
                        other => format!("{other}").contains(&key),
                    };
                    if named {
                        "oracle pass".to_string()
                    } else {
                        format!("oracle FAIL {def} is refused with an error that does not name the parameter {key}: {e}")
                    }
                }
                Err(_) => "oracle pass".to_string(),
            }
        }
        "S_C09" => oracle_c09(fields),
        "S_C13" => oracle_c13(fields),
        "S_C14" => oracle_c14(fields),
        "S_C01" => oracle_c01(fields),
        "S_C01D" => oracle_c01d(fields),
        "S_C10" => oracle_c10(fields),
        "S_C10P" => oracle_c10p(fields),
        "S_C10W" => oracle_c10w(fields),
        "S_C09E" => oracle_c09e(fields),
        "S_C09N" => oracle_c09n(fields),
        "S_C15" => oracle_c15(fields[0], &crate::exec::unhex(fields[1]), fields[2]),
        "S_C15F" => oracle_c15f(fields),
        "S_C15A" => oracle_c15a(fields),
        "S_C11A" => oracle_c11_adapt(fields),
        "S_C11ACC" => oracle_c11_accept(fields),
        "S_C11X" => oracle_c11_axisswap(fields),
        "S_C11U" => oracle_c11_unit(fields),
        _ => "bad-case".to_string(),
    }
}

// ----- C12: the abstract stack machine of Rumination 002 (per tuple) -------------------

struct Machine {
    // one stack per tuple, top of stack last
    stacks: Vec<Vec<f64>>,
    data: Vec<[f64; 4]>,
    unspecified: bool,
}

// with an empty operand set there are no per-tuple stacks; the depth is tracked separately
struct Run {
    m: Machine,
    depth: usize,
}

impl Run {
    fn stomp(&mut self) {
        for d in self.m.data.iter_mut() {
            *d = [f64::NAN; 4];
        }
    }

    /// returns the count the instruction reports
    fn step(&mut self, ins: &Ins) -> usize {
        let n = self.m.data.len();
        match ins {
            Ins::Push(a) => {
                for (i, s) in self.m.stacks.iter_mut().enumerate() {
                    for k in a {
                        s.push(self.m.data[i][*k as usize - 1]);
                    }
                }
                self.depth += a.len();
                n
            }
            Ins::Pop(a) => {
                if self.depth < a.len() {
                    self.stomp();
                    return 0;
                }
                for (i, s) in self.m.stacks.iter_mut().enumerate() {
                    for k in a {
                        self.m.data[i][*k as usize - 1] = s.pop().unwrap();
                    }
                }
                self.depth -= a.len();
                n
            }
            Ins::Flip(a) => {
                if self.depth < a.len() {
                    self.stomp();
                    return 0;
                }
                for (i, s) in self.m.stacks.iter_mut().enumerate() {
                    let d = s.len();
                    for (j, k) in a.iter().enumerate() {
                        std::mem::swap(&mut s[d - 1 - j], &mut self.m.data[i][*k as usize - 1]);
                    }
                }
                n
            }
            Ins::Roll(m, k) | Ins::Unroll(m, k) => {
                let m = *m as usize;
                // unroll m,n = roll m,(m-n); a negative n counts from the bottom of the window
                let k = if matches!(ins, Ins::Unroll(_, _)) { m as i64 - *k } else { *k };
                let k = if k < 0 { m as i64 + k } else { k } as usize;
                if m > self.depth {
                    self.stomp();
                    return 0;
                }
                for s in self.m.stacks.iter_mut() {
                    let d = s.len();
                    // rotate the top-m window by k: k times, move the top to the window's bottom
                    s[d - m..].rotate_right(k % m);
                }
                n
            }
            Ins::Swap => {
                if self.depth < 2 {
                    self.m.unspecified = true;
                    return n;
                }
                for s in self.m.stacks.iter_mut() {
                    let d = s.len();
                    s.swap(d - 1, d - 2);
                }
                n
            }
            Ins::LPush(f) => {
                for (i, s) in self.m.stacks.iter_mut().enumerate() {
                    for j in 0..4 {
                        if f[j] {
                            s.push(self.m.data[i][j]);
                        }
                    }
                }
                self.depth += f.iter().filter(|b| **b).count();
                n
            }
            Ins::LPop(f) => {
                for j in (0..4).rev() {
                    if !f[j] {
                        continue;
                    }
                    if self.depth == 0 {
                        for d in self.m.data.iter_mut() {
                            d[j] = f64::NAN;
                        }
                        return 0;
                    }
                    for (i, s) in self.m.stacks.iter_mut().enumerate() {
                        self.m.data[i][j] = s.pop().unwrap();
                    }
                    self.depth -= 1;
                }
                n
            }
            Ins::Addone => {
                for d in self.m.data.iter_mut() {
                    d[0] += 1.0;
                }
                n
            }
            Ins::AddoneInv => {
                for d in self.m.data.iter_mut() {
                    d[0] -= 1.0;
                }
                n
            }
            Ins::Swap12 => {
                for d in self.m.data.iter_mut() {
                    d.swap(0, 1);
                }
                n
            }
        }
    }
}

fn dual(i: &Ins) -> Ins {
    let rev = |a: &Vec<u8>| a.iter().rev().cloned().collect::<Vec<u8>>();
    match i {
        Ins::Push(a) => Ins::Pop(rev(a)),
        Ins::Pop(a) => Ins::Push(rev(a)),
        Ins::Roll(m, n) => Ins::Unroll(*m, *n),
        Ins::Unroll(m, n) => Ins::Roll(*m, *n),
        Ins::LPush(f) => Ins::LPop(*f),
        Ins::LPop(f) => Ins::LPush(*f),
        Ins::Addone => Ins::AddoneInv,
        Ins::AddoneInv => Ins::Addone,
        other => other.clone(),
    }
}

fn oracle_c12(fields: &[&str]) -> String {
    if fields.len() != 3 {
        return "bad-case".to_string();
    }
    let prog: Vec<Ins> = fields[0].split(';').filter_map(Ins::decode).collect();
    let inverse = fields[1] == "I";
    let data = parse_data(fields[2]);
    // reference
    let mut run = Run {
        m: Machine { stacks: vec![vec![]; data.len()], data: data.iter().map(|c| c.0).collect(), unspecified: false },
        depth: 0,
    };
    let seq: Vec<Ins> = if inverse { prog.iter().rev().map(dual).collect() } else { prog.clone() };
    let mut count = usize::MAX;
    for ins in &seq {
        count = count.min(run.step(ins));
    }
    if count == usize::MAX {
        count = data.len();
    }
    if run.m.unspecified {
        return "oracle skip unspecified-swap".to_string();
    }
    // implementation
    let mut ctx = Minimal::default();
    let def = prog_text(&prog);
    let op = match ctx.op(&def) {
        Ok(op) => op,
        Err(e) => return format!("oracle FAIL instantiation err {}", err_class(&e)),
    };
    let mut d = data.clone();
    let n = match ctx.apply(op, if inverse { Inv } else { Fwd }, &mut d) {
        Ok(n) => n,
        Err(e) => return format!("oracle FAIL apply err {}", err_class(&e)),
    };
    let expected: Vec<Coor4D> = run.m.data.iter().map(|c| Coor4D(*c)).collect();
    let got = dump_data(&d);
    let want = dump_data(&expected);
    if n != count || got != want {
        return format!("oracle FAIL abstract-machine expected n={count} data={want} got n={n} data={got}");
    }
    "oracle pass".to_string()
}

// ----- C03: a pipeline is the sequential application of its steps as stand-alone operators ---

fn oracle_c03(fields: &[&str]) -> String {
    let Some((spec, rest)) = crate::exec::parse_ctx(fields) else {
        return "bad-case".to_string();
    };
    if rest.len() < 4 {
        return "bad-case".to_string();
    }
    let def = unescape(rest[0]);
    let nsteps: usize = rest[1].parse().unwrap_or(0);
    let mut steps = vec![];
    for k in 0..nsteps {
        steps.push((rest[2 + 2 * k].to_string(), unescape(rest[3 + 2 * k])));
    }
    let inverse = rest[2 + 2 * nsteps] == "I";
    let data = parse_data(rest[3 + 2 * nsteps]);
    crate::exec::with_ctx(&spec, |ctx| {
        // reference: the steps one after another, each instantiated on its own
        let mut refdata = data.clone();
        let mut count = usize::MAX;
        let order: Vec<usize> = if inverse { (0..nsteps).rev().collect() } else { (0..nsteps).collect() };
        let mut expect_err = false;
        for k in order {
            let (flags, core) = &steps[k];
            let omit = if inverse { flags.contains('V') } else { flags.contains('F') };
            let text = if flags.contains('I') { format!("{core} inv") } else { core.clone() };
            // every step must be instantiable, executed or not
            let op = match ctx.op(&text) {
                Ok(op) => op,
                Err(_) => {
                    expect_err = true;
                    break;
                }
            };
            if omit {
                continue;
            }
            match ctx.apply(op, if inverse { Inv } else { Fwd }, &mut refdata) {
                Ok(n) => count = count.min(n),
                Err(e) => return format!("oracle FAIL reference apply err {}", err_class(&e)),
            }
        }
        if count == usize::MAX {
            count = data.len();
        }
        let pipeline = ctx.op(&def);
        if expect_err {
            // some step cannot be instantiated on its own (e.g. inv of a one-way operator):
            // then the pipeline must be refused as well
            return match pipeline {
                Err(_) => "oracle pass".to_string(),
                Ok(_) => "oracle FAIL pipeline accepted although a step is not instantiable".to_string(),
            };
        }
        let op = match pipeline {
            Ok(op) => op,
            Err(e) => return format!("oracle FAIL instantiation err {}", err_class(&e)),
        };
        let mut d = data.clone();
        let n = match ctx.apply(op, if inverse { Inv } else { Fwd }, &mut d) {
            Ok(n) => n,
            Err(e) => return format!("oracle FAIL apply err {}", err_class(&e)),
        };
        let got = dump_data(&d);
        let want = dump_data(&refdata);
        if n != count || got != want {
            return format!("oracle FAIL sequential expected n={count} data={want} got n={n} data={got}");
        }
        // the same through the containers that store fewer than four elements (what a step leaves in an element the
        // container does not store is gone before the next step, in a pipeline as between stand-alone applications)
        fn dump_set(set: &dyn CoordinateSet) -> String {
            (0..set.len()).map(|i| { let c = set.get_coord(i); format!("{:x},{:x},{:x},{:x}", c[0].to_bits(), c[1].to_bits(), c[2].to_bits(), c[3].to_bits()) }).collect::<Vec<_>>().join(";")
        }
        let mut sets: Vec<(&str, Box<dyn CoordinateSet>, Box<dyn CoordinateSet>)> = vec![];
        let d2: Vec<Coor2D> = data.iter().map(|c| Coor2D([c[0], c[1]])).collect();
        let d3: Vec<Coor3D> = data.iter().map(|c| Coor3D([c[0], c[1], c[2]])).collect();
        let d32: Vec<Coor32> = data.iter().map(|c| Coor32([c[0] as f32, c[1] as f32])).collect();
        sets.push(("Vec<Coor2D>", Box::new(d2.clone()), Box::new(d2)));
        sets.push(("Vec<Coor3D>", Box::new(d3.clone()), Box::new(d3)));
        sets.push(("Vec<Coor32>", Box::new(d32.clone()), Box::new(d32)));
        for (name, mut a, mut b) in sets {
            let mut count = usize::MAX;
            let order: Vec<usize> = if inverse { (0..nsteps).rev().collect() } else { (0..nsteps).collect() };
            for k in order {
                let (flags, core) = &steps[k];
                let omit = if inverse { flags.contains('V') } else { flags.contains('F') };
                if omit {
                    continue;
                }
                let text = if flags.contains('I') { format!("{core} inv") } else { core.clone() };
                let Ok(sop) = ctx.op(&text) else { return "oracle FAIL a step instantiable a moment ago is not any more".to_string() };
                if let Ok(k) = ctx.apply(sop, if inverse { Inv } else { Fwd }, a.as_mut()) {
                    count = count.min(k);
                }
            }
            if count == usize::MAX {
                count = data.len();
            }
            let n = ctx.apply(op, if inverse { Inv } else { Fwd }, b.as_mut()).unwrap_or(usize::MAX);
            if n != count || dump_set(a.as_ref()) != dump_set(b.as_ref()) {
                return format!("oracle FAIL on a {name}: the steps one after the other give n={count} data={}, the pipeline n={n} data={}", dump_set(a.as_ref()), dump_set(b.as_ref()));
            }
        }
        "oracle pass".to_string()
    })
}

// ----- C04: a macro invocation means its expansion --------------------------------------

fn oracle_c04(fields: &[&str]) -> String {
    let nres: usize = fields[0].parse().unwrap_or(0);
    let mut ctx = Minimal::default();
    ctx.register_op("add2", crate::exec::user_ctor("u:add2").unwrap());
    for k in 0..nres {
        ctx.register_resource(&unescape(fields[1 + 2 * k]), &unescape(fields[2 + 2 * k]));
    }
    let def = unescape(fields[1 + 2 * nres]);
    let expect = unescape(fields[2 + 2 * nres]);
    let data = parse_data(fields[3 + 2 * nres]);
    let got = ctx.op(&def);
    let (expect, deep) = match expect.strip_prefix("DEEP:") {
        Some(e) => (e.to_string(), true),
        None => (expect, false),
    };
    if deep && matches!(got, Err(Error::Recursion(_, _))) {
        return "oracle pass".to_string();
    }
    if let Some(class) = expect.strip_prefix("ERR:") {
        return match got {
            Err(e) if err_class(&e) == class => "oracle pass".to_string(),
            Err(e) => format!("oracle FAIL expected error {class}, got error {}", err_class(&e)),
            Ok(_) => format!("oracle FAIL expected error {class}, got an operator"),
        };
    }
    // the expansion, instantiated where no macro exists
    let mut plain = Minimal::default();
    plain.register_op("add2", crate::exec::user_ctor("u:add2").unwrap());
    let want = match plain.op(&expect) {
        Ok(op) => op,
        Err(e) => return format!("oracle skip expansion not instantiable ({})", err_class(&e)),
    };
    let op = match got {
        Ok(op) => op,
        Err(e) => return format!("oracle FAIL invocation refused ({}) but its expansion {} is fine", err_class(&e), escape(&expect)),
    };
    for dir in [Fwd, Inv] {
        let inverse = dir == Inv;
        let mut a = data.clone();
        let mut b = data.clone();
        let na = ctx.apply(op, if inverse { Inv } else { Fwd }, &mut a).unwrap_or(usize::MAX);
        let nb = plain.apply(want, if inverse { Inv } else { Fwd }, &mut b).unwrap_or(usize::MAX);
        if na != nb || dump_data(&a) != dump_data(&b) {
            return format!(
                "oracle FAIL invocation differs from expansion {} ({}): n={} data={} expected n={} data={}",
                escape(&expect),
                if inverse { "inv" } else { "fwd" },
                na,
                dump_data(&a),
                nb,
                dump_data(&b)
            );
        }
    }
    "oracle pass".to_string()
}

// ----- C07: Helmert against the EPSG guidance-note formulas and its own algebraic laws ------

fn parse_hset(s: &str) -> Option<crate::gens::c07::HSet> {
    let (flags, vals) = s.split_once(':')?;
    let v: Vec<f64> = vals.split(',').map(parse_f).collect();
    if v.len() != 16 {
        return None;
    }
    Some(crate::gens::c07::HSet {
        t: [v[0], v[1], v[2]],
        r: [v[3], v[4], v[5]],
        s: v[6],
        dt: [v[7], v[8], v[9]],
        dr: [v[10], v[11], v[12]],
        ds: v[13],
        pv: flags.starts_with('P'),
        exact: flags.ends_with('E'),
        t_epoch: v[14],
        t_obs: if v[15].is_nan() { None } else { Some(v[15]) },
    })
}

fn apply_def(def: &str, dir: Direction, data: &[Coor4D]) -> Result<(usize, Vec<Coor4D>), String> {
    let mut ctx = Minimal::default();
    let op = ctx.op(def).map_err(|e| format!("instantiation of {def:?}: {}", err_class(&e)))?;
    let mut d = data.to_vec();
    let n = ctx.apply(op, dir, &mut d).map_err(|e| format!("apply: {}", err_class(&e)))?;
    Ok((n, d))
}

fn oracle_c07(fields: &[&str]) -> String {
    let Some(h) = parse_hset(fields[0]) else { return "bad-case".to_string() };
    let data = parse_data(fields[1]);
    let arcsec = std::f64::consts::PI / 180.0 / 3600.0;
    let def = h.scalar_def(true);
    let (n, out) = match apply_def(&def, Fwd, &data) {
        Ok(x) => x,
        Err(e) => return format!("oracle FAIL {e}"),
    };
    if n != data.len() {
        return format!("oracle FAIL count {n} of {}", data.len());
    }
    // (1) alias spellings are interchangeable, bit for bit
    match apply_def(&h.list_def(true), Fwd, &data) {
        Ok((_, o2)) => {
            if dump_data(&o2) != dump_data(&out) {
                return format!("oracle FAIL alias spellings differ: {} vs {}", def, h.list_def(true));
            }
        }
        Err(e) => return format!("oracle FAIL {e}"),
    }
    // (2) the fourth coordinate is untouched
    for (a, b) in data.iter().zip(out.iter()) {
        if a[3].to_bits() != b[3].to_bits() {
            return "oracle FAIL fourth coordinate changed".to_string();
        }
    }
    // ... in the inverse direction too
    if let Ok((_, back)) = apply_def(&def, Inv, &data) {
        for (a, b) in data.iter().zip(back.iter()) {
            if a[3].to_bits() != b[3].to_bits() && !(a[3].is_nan() && b[3].is_nan()) {
                return format!("oracle FAIL fourth coordinate changed by the inverse direction: {} became {} ({def})", a[3], b[3]);
            }
        }
    }
    // (3) every tuple transformed at its own epoch: reference per EPSG guidance note 7-2
    //     (small angle: the published matrix; exact: composition of the three elementary rotations,
    //     checked through orthogonality, determinant and agreement to second order instead)
    for (c, o) in data.iter().zip(out.iter()) {
        let t = if h.dynamic() { h.t_obs.unwrap_or(c[3]) } else { h.t_epoch };
        let dt = t - h.t_epoch;
        let tt = [h.t[0] + h.dt[0] * dt, h.t[1] + h.dt[1] * dt, h.t[2] + h.dt[2] * dt];
        let sign = if h.pv { 1.0 } else { -1.0 };
        let r = [
            sign * (h.r[0] + h.dr[0] * dt) * arcsec,
            sign * (h.r[1] + h.dr[1] * dt) * arcsec,
            sign * (h.r[2] + h.dr[2] * dt) * arcsec,
        ];
        let s = 1.0 + (h.s + h.ds * dt) * 1e-6;
        // position vector small-angle matrix
        let m = [[1.0, -r[2], r[1]], [r[2], 1.0, -r[0]], [-r[1], r[0], 1.0]];
        let want: Vec<f64> = (0..3).map(|i| tt[i] + s * (m[i][0] * c[0] + m[i][1] * c[1] + m[i][2] * c[2])).collect();
        let angle = r.iter().fold(0.0f64, |a, b| a.max(b.abs()));
        let size = c[0].abs().max(c[1].abs()).max(c[2].abs()).max(1.0);
        // exact mode differs from the linearised matrix by second order terms
        let tol = if h.exact { 3.0 * angle * angle * size + 1e-6 } else { 1e-6 };
        for i in 0..3 {
            if !((o[i] - want[i]).abs() <= tol) {
                return format!(
                    "oracle FAIL epoch/convention: element {i} is {} but the guidance-note formula gives {} (tol {tol:e}) for {def} at t={}",
                    o[i], want[i], c[3]
                );
            }
        }
    }
    // (4) similarity (exact mode): distances scale by S; (5) the linear part is a proper rotation
    if h.exact && !h.dynamic() && data.len() >= 2 {
        let s = 1.0 + h.s * 1e-6;
        let d0 = ((data[0][0] - data[1][0]).powi(2) + (data[0][1] - data[1][1]).powi(2) + (data[0][2] - data[1][2]).powi(2)).sqrt();
        let d1 = ((out[0][0] - out[1][0]).powi(2) + (out[0][1] - out[1][1]).powi(2) + (out[0][2] - out[1][2]).powi(2)).sqrt();
        if !((d1 - s.abs() * d0).abs() <= 1e-6 * (1.0 + d0 * 1e-7)) {
            return format!("oracle FAIL similarity: distance {d0} became {d1}, scale {s}");
        }
        let basis = [Coor4D([0., 0., 0., 0.]), Coor4D([1., 0., 0., 0.]), Coor4D([0., 1., 0., 0.]), Coor4D([0., 0., 1., 0.])];
        if let Ok((_, b)) = apply_def(&def, Fwd, &basis) {
            let col = |k: usize| [(b[k][0] - b[0][0]) / s, (b[k][1] - b[0][1]) / s, (b[k][2] - b[0][2]) / s];
            let (c1, c2, c3) = (col(1), col(2), col(3));
            let dot = |a: [f64; 3], b: [f64; 3]| a[0] * b[0] + a[1] * b[1] + a[2] * b[2];
            let det = c1[0] * (c2[1] * c3[2] - c2[2] * c3[1]) - c2[0] * (c1[1] * c3[2] - c1[2] * c3[1]) + c3[0] * (c1[1] * c2[2] - c1[2] * c2[1]);
            let bad = (dot(c1, c1) - 1.0).abs().max((dot(c2, c2) - 1.0).abs()).max((dot(c3, c3) - 1.0).abs()).max(dot(c1, c2).abs()).max(dot(c1, c3).abs()).max(dot(c2, c3).abs());
            // the translation (up to 1000) costs digits when the columns are recovered by differences
            if !(bad <= 1e-9) || !((det - 1.0).abs() <= 1e-9) {
                return format!("oracle FAIL rotation matrix not a proper rotation: defect {bad:e}, det {det}");
            }
        }
    }
    // (6) small angle: position vector with r = coordinate frame with -r, bit for bit
    if !h.exact && h.rotated() {
        let mut g = crate::gens::c07::HSet { pv: !h.pv, r: [-h.r[0], -h.r[1], -h.r[2]], dr: [-h.dr[0], -h.dr[1], -h.dr[2]], t: h.t, dt: h.dt, s: h.s, ds: h.ds, exact: false, t_epoch: h.t_epoch, t_obs: h.t_obs };
        g.pv = !h.pv;
        if let Ok((_, o2)) = apply_def(&g.scalar_def(true), Fwd, &data) {
            if dump_data(&o2) != dump_data(&out) {
                return format!("oracle FAIL conventions: {} differs from {}", def, g.scalar_def(true));
            }
        }
    }
    // (7) fixing t_obs is the same as giving every tuple that epoch
    if let Some(tobs) = h.t_obs {
        let at: Vec<Coor4D> = data.iter().map(|c| Coor4D([c[0], c[1], c[2], tobs])).collect();
        match apply_def(&h.scalar_def(false), Fwd, &at) {
            Ok((_, o2)) => {
                for (a, b) in out.iter().zip(o2.iter()) {
                    for i in 0..3 {
                        if !((a[i] - b[i]).abs() <= 1e-9 * (1.0 + a[i].abs() * 1e-7)) {
                            return format!("oracle FAIL t_obs: {} gives {} but epoch {tobs} on the tuples gives {}", def, a[i], b[i]);
                        }
                    }
                }
            }
            Err(e) => return format!("oracle FAIL {e}"),
        }
    }
    // (8) the inverse undoes the forward: exactly in exact mode, to second order otherwise
    match apply_def(&def, Inv, &out) {
        Ok((_, back)) => {
            for (c, b) in data.iter().zip(back.iter()) {
                let size = c[0].abs().max(c[1].abs()).max(c[2].abs()).max(1.0);
                let t = if h.dynamic() { h.t_obs.unwrap_or(c[3]) } else { h.t_epoch };
                let dt = t - h.t_epoch;
                let angle = (0..3).map(|i| ((h.r[i] + h.dr[i] * dt) * arcsec).abs()).fold(0.0f64, f64::max);
                let tol = if h.exact { 1e-6 } else { 4.0 * angle * angle * size + 1e-6 };
                for i in 0..3 {
                    if !((c[i] - b[i]).abs() <= tol) {
                        return format!("oracle FAIL roundtrip: {} came back as {} (tol {tol:e}) under {def}", c[i], b[i]);
                    }
                }
            }
        }
        Err(e) => return format!("oracle FAIL {e}"),
    }
    "oracle pass".to_string()
}

// ----- C07 (last clause): molodensky against the cartesian three-parameter path ------------

/// fields: abridged(0/1), ellps_0, ellps_1, dx, dy, dz (hex), geographic points (rad, rad, m, t)
/// prints the largest disagreement in metres; the check compares it with the tolerance
fn oracle_c07m(fields: &[&str]) -> String {
    // 0/1: the ellipsoids by name (full/abridged); 2/3: the first by name, the second by its differences da, df
    let abridged = fields[0] == "1" || fields[0] == "3";
    let by_differences = fields[0] == "2" || fields[0] == "3";
    let (e0, e1) = (fields[1], fields[2]);
    let (dx, dy, dz) = (parse_f(fields[3]), parse_f(fields[4]), parse_f(fields[5]));
    let tol = parse_f(fields[6]);
    let data = parse_data(fields[7]);
    let mdef = if by_differences {
        let (Ok(l), Ok(r)) = (Ellipsoid::named(e0), Ellipsoid::named(e1)) else {
            return "oracle FAIL ellipsoid".to_string();
        };
        let da = r.semimajor_axis() - l.semimajor_axis();
        let df = r.flattening() - l.flattening();
        format!("molodensky ellps={e0} da={da} df={df} dx={dx} dy={dy} dz={dz}{}", if abridged { " abridged" } else { "" })
    } else {
        format!("molodensky ellps_0={e0} ellps_1={e1} dx={dx} dy={dy} dz={dz}{}", if abridged { " abridged" } else { "" })
    };
    let cdef = format!("cart ellps={e0} | helmert x={dx} y={dy} z={dz} | cart inv ellps={e1}");
    let (_, m) = match apply_def(&mdef, Fwd, &data) {
        Ok(x) => x,
        Err(e) => return format!("oracle FAIL {e}"),
    };
    let (_, c) = match apply_def(&cdef, Fwd, &data) {
        Ok(x) => x,
        Err(e) => return format!("oracle FAIL {e}"),
    };
    let a = 6378137.0;
    let mut worst = 0.0f64;
    for (p, q) in m.iter().zip(c.iter()) {
        let dn = (p[1] - q[1]).abs() * a;
        let de = (p[0] - q[0]).abs() * a * q[1].cos().abs();
        let du = if abridged { 0.0 } else { (p[2] - q[2]).abs() };
        worst = nmax(nmax(nmax(worst, dn), de), du);
    }
    if worst.is_nan() || worst > tol {
        return format!("oracle FAIL molodensky differs from the cartesian path by {worst:.4} m (tolerance {tol} m): {mdef}");
    }
    format!("oracle pass worst={worst:.5}")
}

// ----- C11: adapt / axisswap / unitconvert against their documentation ---------------------

fn close(a: f64, b: f64) -> bool {
    if a.is_nan() || b.is_nan() {
        return a.is_nan() && b.is_nan();
    }
    a == b || (a - b).abs() <= 4.0 * f64::EPSILON * a.abs().max(b.abs())
}

/// what a descriptor declares: for each external position the internal axis, the sign and whether
/// the angular unit applies (the two first positions); and the unit factor to radians
fn describe(d: &str) -> ([usize; 4], [f64; 4], f64) {
    let unit = if d.ends_with("_deg") {
        std::f64::consts::PI / 180.0
    } else if d.ends_with("_gon") {
        std::f64::consts::PI / 200.0
    } else {
        1.0
    };
    let mut axis = [0usize; 4];
    let mut sign = [1.0f64; 4];
    for (i, c) in d.chars().take(4).enumerate() {
        axis[i] = crate::gens::c11::axis_of(c);
        sign[i] = if "wsdp".contains(c) { -1.0 } else { 1.0 };
    }
    (axis, sign, unit)
}

fn oracle_c11_adapt(fields: &[&str]) -> String {
    let (from, to) = (fields[0], fields[1]);
    let data = parse_data(fields[2]);
    let (fa, fs, fu) = describe(from);
    let (ta, ts, tu) = describe(to);
    // reference: external(from) -> internal -> external(to)
    let reference: Vec<Coor4D> = data
        .iter()
        .map(|c| {
            let mut internal = [0.0f64; 4];
            for i in 0..4 {
                internal[fa[i]] = c[i] * fs[i] * if i < 2 { fu } else { 1.0 };
            }
            let mut out = [0.0f64; 4];
            for j in 0..4 {
                out[j] = internal[ta[j]] * ts[j] / if j < 2 { tu } else { 1.0 };
            }
            Coor4D(out)
        })
        .collect();
    let def = format!("adapt from={from} to={to}");
    let (n, out) = match apply_def(&def, Fwd, &data) {
        Ok(x) => x,
        Err(e) => return format!("oracle FAIL {e}"),
    };
    if n != data.len() {
        return format!("oracle FAIL count {n}");
    }
    for (o, r) in out.iter().zip(reference.iter()) {
        for i in 0..4 {
            if !close(o[i], r[i]) {
                return format!("oracle FAIL {def}: element {i} is {} but the descriptors declare {}", o[i], r[i]);
            }
        }
    }
    // the inverse is the exact reverse mapping
    let (_, back) = match apply_def(&def, Inv, &out) {
        Ok(x) => x,
        Err(e) => return format!("oracle FAIL {e}"),
    };
    for (b, c) in back.iter().zip(data.iter()) {
        for i in 0..4 {
            if !close(b[i], c[i]) {
                return format!("oracle FAIL {def}: inverse of forward gives {} for {}", b[i], c[i]);
            }
        }
    }
    // `adapt to=X` equals `adapt inv from=X`
    if from == "enuf" {
        let (_, alt) = match apply_def(&format!("adapt inv from={to}"), Fwd, &data) {
            Ok(x) => x,
            Err(e) => return format!("oracle FAIL {e}"),
        };
        for (a, o) in alt.iter().zip(out.iter()) {
            for i in 0..4 {
                if !close(a[i], o[i]) {
                    return format!("oracle FAIL adapt to={to} differs from adapt inv from={to}: {} vs {}", o[i], a[i]);
                }
            }
        }
    }
    "oracle pass".to_string()
}

fn oracle_c11_accept(fields: &[&str]) -> String {
    let d = unescape(fields[0]);
    let expect = fields[1] == "1";
    let mut ctx = Minimal::default();
    let got = ctx.op(&format!("adapt from={d}")).is_ok();
    if got != expect {
        return format!("oracle FAIL descriptor {:?} {} but should be {}", d, if got { "accepted" } else { "rejected" }, if expect { "accepted" } else { "rejected" });
    }
    "oracle pass".to_string()
}

fn oracle_c11_axisswap(fields: &[&str]) -> String {
    let order: Vec<i64> = fields[0].split(',').filter_map(|x| x.parse().ok()).collect();
    let data = parse_data(fields[1]);
    let n = order.len();
    let mut valid = n >= 1 && n <= 4;
    let mut seen = [false; 5];
    for o in &order {
        let a = o.unsigned_abs() as usize;
        if *o == 0 || a > n || a > 4 || seen[a.min(4)] {
            valid = false;
            break;
        }
        seen[a] = true;
    }
    let def = format!("axisswap order={}", fields[0]);
    let mut ctx = Minimal::default();
    let op = ctx.op(&def);
    if op.is_ok() != valid {
        return format!("oracle FAIL {def} {} but should be {}", if op.is_ok() { "accepted" } else { "rejected" }, if valid { "accepted" } else { "rejected" });
    }
    if !valid {
        return "oracle pass".to_string();
    }
    let op = op.unwrap();
    let mut out = data.clone();
    if ctx.apply(op, Fwd, &mut out).is_err() {
        return "oracle FAIL apply".to_string();
    }
    for (o, c) in out.iter().zip(data.iter()) {
        for i in 0..4 {
            let want = if i < n { c[order[i].unsigned_abs() as usize - 1] * if order[i] < 0 { -1.0 } else { 1.0 } } else { c[i] };
            // (a NaN is a NaN, whatever its sign bit)
            if o[i].to_bits() != want.to_bits() && !(o[i].is_nan() && want.is_nan()) {
                return format!("oracle FAIL {def}: element {i} is {} but should be {}", o[i], want);
            }
        }
    }
    let mut back = out.clone();
    let _ = ctx.apply(op, Inv, &mut back);
    if dump_data(&back) != dump_data(&data) {
        return format!("oracle FAIL {def}: the inverse does not undo the forward");
    }
    "oracle pass".to_string()
}

/// the published unit factors (PROJ units.c / the defining fractions), kept here independently
fn published_factor(u: &str) -> Option<f64> {
    Some(match u {
        "km" => 1000.0,
        "m" => 1.0,
        "dm" => 0.1,
        "cm" => 0.01,
        "mm" => 0.001,
        "kmi" => 1852.0,
        "in" => 0.0254,
        "ft" => 0.3048,
        "yd" => 0.9144,
        "mi" => 1609.344,
        "fath" => 1.8288,
        "ch" => 20.1168,
        "link" => 0.201168,
        "us-in" => 100.0 / 3937.0,
        "us-ft" => 1200.0 / 3937.0,
        "us-yd" => 3600.0 / 3937.0,
        "us-ch" => 79200.0 / 3937.0,
        "us-mi" => 6336000.0 / 3937.0,
        "ind-yd" => 0.91439523,
        "ind-ft" => 0.30479841,
        "ind-ch" => 20.11669506,
        "rad" => 1.0,
        "deg" => std::f64::consts::PI / 180.0,
        "grad" => std::f64::consts::PI / 200.0,
        _ => return None,
    })
}

fn oracle_c11_unit(fields: &[&str]) -> String {
    let (a, b) = (fields[0], fields[1]);
    let data = parse_data(fields[2]);
    let (Some(fa), Some(fb)) = (published_factor(a), published_factor(b)) else { return "bad-case".to_string() };
    let ratio = fa / fb;
    for (def, idx) in [(format!("unitconvert xy_in={a} xy_out={b}"), vec![0usize, 1]), (format!("unitconvert z_in={a} z_out={b}"), vec![2usize])] {
        let (_, out) = match apply_def(&def, Fwd, &data) {
            Ok(x) => x,
            Err(e) => return format!("oracle FAIL {e}"),
        };
        for (o, c) in out.iter().zip(data.iter()) {
            for i in 0..4 {
                let want = if idx.contains(&i) { c[i] * ratio } else { c[i] };
                let ok = if o[i].is_nan() || want.is_nan() {
                    o[i].is_nan() && want.is_nan()
                } else if idx.contains(&i) {
                    (o[i] - want).abs() <= 1e-14 * want.abs().max(1e-300) * 8.0 || o[i] == want
                } else {
                    o[i].to_bits() == want.to_bits()
                };
                if !ok {
                    return format!("oracle FAIL {def}: element {i} is {} but the published factors give {}", o[i], want);
                }
            }
        }
        let (_, back) = match apply_def(&def, Inv, &out) {
            Ok(x) => x,
            Err(e) => return format!("oracle FAIL {e}"),
        };
        for (bk, c) in back.iter().zip(data.iter()) {
            for i in 0..4 {
                if !(close(bk[i], c[i]) || (bk[i] - c[i]).abs() <= 1e-14 * c[i].abs()) {
                    return format!("oracle FAIL {def}: inverse gives {} for {}", bk[i], c[i]);
                }
            }
        }
    }
    "oracle pass".to_string()
}

// ----- C02: a tuple's result depends on the operator and on that tuple only ------------------

fn bits_eq(a: &Coor4D, b: &Coor4D, dims: usize) -> bool {
    (0..dims).all(|i| a[i].to_bits() == b[i].to_bits() || (a[i].is_nan() && b[i].is_nan()))
}

fn oracle_c02(fields: &[&str]) -> String {
    let spec = crate::exec::CtxSpec { kind: fields[0].to_string(), resources: vec![], users: vec![] };
    let def = unescape(fields[1]);
    let dir = if fields[2] == "I" { Inv } else { Fwd };
    let seed: u64 = fields[3].parse().unwrap_or(1);
    let data = parse_data(fields[4]);
    let d = |x: &Direction| if *x == Inv { Inv } else { Fwd };
    crate::exec::with_ctx(&spec, |ctx| {
        let op = match ctx.op(&def) {
            Ok(op) => op,
            Err(e) => return format!("oracle skip not instantiable ({})", err_class(&e)),
        };
        let mut rng = crate::rng::Rng(seed);
        // the whole set
        let mut full = data.clone();
        let nfull = match ctx.apply(op, d(&dir), &mut full) {
            Ok(n) => n,
            Err(e) => return format!("oracle FAIL apply err {}", err_class(&e)),
        };
        if nfull > data.len() {
            return format!("oracle FAIL count {nfull} exceeds the set size {}", data.len());
        }
        // history: other data through the same handle first, in both directions
        let mut other: Vec<Coor4D> = data.iter().rev().map(|c| Coor4D([c[1], c[0], c[3], c[2]])).collect();
        let _ = ctx.apply(op, Fwd, &mut other);
        let _ = ctx.apply(op, Inv, &mut other);
        // every tuple alone
        let mut sum = 0usize;
        for (i, c) in data.iter().enumerate() {
            let mut one = [*c];
            let n1 = ctx.apply(op, d(&dir), &mut one).unwrap_or(usize::MAX);
            sum += n1;
            if !bits_eq(&one[0], &full[i], 4) {
                return format!(
                    "oracle FAIL tuple {i} of {}: alone {} but in the set {} ({def})",
                    data.len(),
                    dump_data(&one),
                    dump_data(&[full[i]])
                );
            }
        }
        // elementary operators: the count of the whole is the sum over the parts
        let elementary = !def.contains('|');
        if elementary && sum != nfull {
            return format!("oracle FAIL count of the set {nfull} but the singletons sum to {sum} ({def})");
        }
        // a permutation of the set
        let mut idx: Vec<usize> = (0..data.len()).collect();
        for i in (1..idx.len()).rev() {
            idx.swap(i, rng.below(i + 1));
        }
        let mut perm: Vec<Coor4D> = idx.iter().map(|i| data[*i]).collect();
        let _ = ctx.apply(op, d(&dir), &mut perm);
        for (k, i) in idx.iter().enumerate() {
            if !bits_eq(&perm[k], &full[*i], 4) {
                return format!("oracle FAIL order dependence: tuple {i} gives {} at position {k} of a permutation but {} in place ({def})", dump_data(&[perm[k]]), dump_data(&[full[*i]]));
            }
        }
        // a partition into chunks
        if data.len() >= 2 {
            let mut start = 0;
            while start < data.len() {
                let len = 1 + rng.below((data.len() - start).min(17));
                let mut chunk: Vec<Coor4D> = data[start..start + len].to_vec();
                let _ = ctx.apply(op, d(&dir), &mut chunk);
                for k in 0..len {
                    if !bits_eq(&chunk[k], &full[start + k], 4) {
                        return format!("oracle FAIL chunking: tuple {} gives {} in a chunk [{start},{}) but {} in the whole set ({def})", start + k, dump_data(&[chunk[k]]), start + len, dump_data(&[full[start + k]]));
                    }
                }
                start += len;
            }
        }
        // repeated on a fresh copy: the operator has not changed
        let mut again = data.clone();
        let nagain = ctx.apply(op, d(&dir), &mut again).unwrap_or(usize::MAX);
        if nagain != nfull || dump_data(&again) != dump_data(&full) {
            return format!("oracle FAIL a second application on a fresh copy differs ({def})");
        }
        // containers: the same tuples through slices, arrays and the adapters
        {
            let mut v = data.clone();
            let mut s: &mut [Coor4D] = &mut v[..];
            let _ = ctx.apply(op, d(&dir), &mut s);
            if dump_data(&v) != dump_data(&full) {
                return format!("oracle FAIL slice container differs from vector ({def})");
            }
        }
        if data.len() >= 3 {
            let mut arr = [data[0], data[1], data[2]];
            let mut vec3 = data[..3].to_vec();
            let _ = ctx.apply(op, d(&dir), &mut arr);
            let _ = ctx.apply(op, d(&dir), &mut vec3);
            if dump_data(&arr) != dump_data(&vec3) {
                return format!("oracle FAIL array container differs from vector ({def})");
            }
        }
        // every narrower container against itself: the whole set, every tuple alone and a partition into
        // chunks give the same stored elements, also through a pipeline and for sets of any length
        {
            let (h0, t0) = (25.0, 2010.0);
            macro_rules! same_container {
                ($label:expr, $make:expr, $dump:expr) => {{
                    let mut whole = $make(&data[..]);
                    let _ = ctx.apply(op, d(&dir), &mut whole);
                    let whole_dump: Vec<String> = $dump(&whole);
                    let mut pos = 0usize;
                    let mut alone = true;
                    while pos < data.len() {
                        // singletons first, then chunks of growing size (reaching beyond any internal batch size)
                        let len = if alone { 1 } else { (1 + rng.below(40) + pos / 2).min(data.len() - pos) };
                        let mut part = $make(&data[pos..pos + len]);
                        let _ = ctx.apply(op, d(&dir), &mut part);
                        let part_dump: Vec<String> = $dump(&part);
                        for k in 0..len {
                            if part_dump[k] != whole_dump[pos + k] {
                                return format!("oracle FAIL {}: tuple {} gives {} in a chunk of {len} but {} in the whole set of {} ({def})", $label, pos + k, part_dump[k], whole_dump[pos + k], data.len());
                            }
                        }
                        pos += len;
                        if pos >= 3 {
                            alone = false;
                        }
                    }
                }};
            }
            let d2 = |v: &Vec<Coor2D>| -> Vec<String> { v.iter().map(|c| format!("{:016x},{:016x}", c[0].to_bits(), c[1].to_bits())).collect() };
            let d3 = |v: &Vec<Coor3D>| -> Vec<String> { v.iter().map(|c| format!("{:016x},{:016x},{:016x}", c[0].to_bits(), c[1].to_bits(), c[2].to_bits())).collect() };
            same_container!("Vec<Coor2D>", |s: &[Coor4D]| s.iter().map(|c| Coor2D([c[0], c[1]])).collect::<Vec<Coor2D>>(), d2);
            same_container!("Vec<Coor3D>", |s: &[Coor4D]| s.iter().map(|c| Coor3D([c[0], c[1], c[2]])).collect::<Vec<Coor3D>>(), d3);
            same_container!("(Vec<Coor2D>, height, epoch)", |s: &[Coor4D]| (s.iter().map(|c| Coor2D([c[0], c[1]])).collect::<Vec<Coor2D>>(), h0, t0), |w: &(Vec<Coor2D>, f64, f64)| d2(&w.0));
            same_container!("(Vec<Coor3D>, epoch)", |s: &[Coor4D]| (s.iter().map(|c| Coor3D([c[0], c[1], c[2]])).collect::<Vec<Coor3D>>(), t0), |w: &(Vec<Coor3D>, f64)| d3(&w.0));
        }
        // 3D tuples with a fixed epoch: (Vec<Coor3D>, t) against 4D tuples carrying that epoch
        let t0 = 2010.0;
        let at: Vec<Coor4D> = data.iter().map(|c| Coor4D([c[0], c[1], c[2], t0])).collect();
        let mut ref4 = at.clone();
        let _ = ctx.apply(op, d(&dir), &mut ref4);
        let mut c3 = (data.iter().map(|c| Coor3D([c[0], c[1], c[2]])).collect::<Vec<_>>(), t0);
        let _ = ctx.apply(op, d(&dir), &mut c3);
        for (a, b) in c3.0.iter().zip(ref4.iter()) {
            let a4 = Coor4D([a[0], a[1], a[2], 0.0]);
            if !bits_eq(&a4, b, 3) {
                return format!("oracle FAIL (Vec<Coor3D>, epoch) gives {:?} but the 4D tuple gives {} ({def})", a.0, dump_data(&[*b]));
            }
        }
        // 2D tuples with fixed height and epoch.  Only for elementary operators: between the steps
        // of a pipeline a 2D container keeps two elements, as documented for `set_coord`, so a
        // pipeline passing through 3D intermediate results legitimately differs
        if !elementary {
            return "oracle pass".to_string();
        }
        // bare 2D and 3D containers against 4D tuples carrying what `get_coord` presents for the missing
        // dimensions (height 0, epoch NaN): the stored elements and the count
        {
            let at: Vec<Coor4D> = data.iter().map(|c| Coor4D([c[0], c[1], 0.0, f64::NAN])).collect();
            let mut ref4 = at.clone();
            let nref = ctx.apply(op, d(&dir), &mut ref4).unwrap_or(usize::MAX);
            let mut c2: Vec<Coor2D> = data.iter().map(|c| Coor2D([c[0], c[1]])).collect();
            let n2 = ctx.apply(op, d(&dir), &mut c2).unwrap_or(usize::MAX);
            if n2 != nref {
                return format!("oracle FAIL Vec<Coor2D> counts {n2}, the same tuples as 4D {nref} ({def})");
            }
            for (a, b) in c2.iter().zip(ref4.iter()) {
                if !bits_eq(&Coor4D([a[0], a[1], 0.0, 0.0]), b, 2) {
                    return format!("oracle FAIL Vec<Coor2D> gives {:?} but the 4D tuple gives {} ({def})", a.0, dump_data(&[*b]));
                }
            }
            let at: Vec<Coor4D> = data.iter().map(|c| Coor4D([c[0], c[1], c[2], f64::NAN])).collect();
            let mut ref4 = at.clone();
            let nref = ctx.apply(op, d(&dir), &mut ref4).unwrap_or(usize::MAX);
            let mut c3: Vec<Coor3D> = data.iter().map(|c| Coor3D([c[0], c[1], c[2]])).collect();
            let n3 = ctx.apply(op, d(&dir), &mut c3).unwrap_or(usize::MAX);
            if n3 != nref {
                return format!("oracle FAIL Vec<Coor3D> counts {n3}, the same tuples as 4D {nref} ({def})");
            }
            for (a, b) in c3.iter().zip(ref4.iter()) {
                if !bits_eq(&Coor4D([a[0], a[1], a[2], 0.0]), b, 3) {
                    return format!("oracle FAIL Vec<Coor3D> gives {:?} but the 4D tuple gives {} ({def})", a.0, dump_data(&[*b]));
                }
            }
        }
        // operators that never look at the epoch: a plane or a 3D container gives what the 4D tuple with any finite
        // epoch gives - the epoch a container cannot store is no reason to treat its tuples differently
        {
            let name = def.split_whitespace().find(|w| !w.contains('=') && *w != "inv").unwrap_or("");
            if ["unitconvert", "tmerc", "utm", "merc", "webmerc", "lcc", "laea", "omerc", "somerc", "btmerc", "butm", "latitude", "noop", "addone", "curvature", "gravity"].contains(&name) {
                let mut ref4: Vec<Coor4D> = data.iter().map(|c| Coor4D([c[0], c[1], 0.0, 2000.0])).collect();
                let nref = ctx.apply(op, d(&dir), &mut ref4).unwrap_or(usize::MAX);
                let mut c2: Vec<Coor2D> = data.iter().map(|c| Coor2D([c[0], c[1]])).collect();
                let n2 = ctx.apply(op, d(&dir), &mut c2).unwrap_or(usize::MAX);
                if n2 != nref {
                    return format!("oracle FAIL Vec<Coor2D> counts {n2}, the same tuples as 4D with an epoch {nref} ({def})");
                }
                for (a, b) in c2.iter().zip(ref4.iter()) {
                    if !bits_eq(&Coor4D([a[0], a[1], 0.0, 0.0]), b, 2) {
                        return format!("oracle FAIL Vec<Coor2D> gives {:?} but the 4D tuple with an epoch gives {} ({def})", a.0, dump_data(&[*b]));
                    }
                }
                let mut ref4: Vec<Coor4D> = data.iter().map(|c| Coor4D([c[0], c[1], c[2], 2000.0])).collect();
                let nref = ctx.apply(op, d(&dir), &mut ref4).unwrap_or(usize::MAX);
                let mut c3: Vec<Coor3D> = data.iter().map(|c| Coor3D([c[0], c[1], c[2]])).collect();
                let n3 = ctx.apply(op, d(&dir), &mut c3).unwrap_or(usize::MAX);
                if n3 != nref {
                    return format!("oracle FAIL Vec<Coor3D> counts {n3}, the same tuples as 4D with an epoch {nref} ({def})");
                }
                for (a, b) in c3.iter().zip(ref4.iter()) {
                    if !bits_eq(&Coor4D([a[0], a[1], a[2], 0.0]), b, 3) {
                        return format!("oracle FAIL Vec<Coor3D> gives {:?} but the 4D tuple with an epoch gives {} ({def})", a.0, dump_data(&[*b]));
                    }
                }
            }
        }
        let h0 = 25.0;
        let at: Vec<Coor4D> = data.iter().map(|c| Coor4D([c[0], c[1], h0, t0])).collect();
        let mut ref4 = at.clone();
        let _ = ctx.apply(op, d(&dir), &mut ref4);
        let mut c2 = (data.iter().map(|c| Coor2D([c[0], c[1]])).collect::<Vec<_>>(), h0, t0);
        let _ = ctx.apply(op, d(&dir), &mut c2);
        for (a, b) in c2.0.iter().zip(ref4.iter()) {
            let a4 = Coor4D([a[0], a[1], 0.0, 0.0]);
            if !bits_eq(&a4, b, 2) {
                return format!("oracle FAIL (Vec<Coor2D>, height, epoch) gives {:?} but the 4D tuple gives {} ({def})", a.0, dump_data(&[*b]));
            }
        }
        "oracle pass".to_string()
    })
}

// ----- C16: layout is insignificant ----------------------------------------------------------

fn oracle_c16(fields: &[&str]) -> String {
    let Some((spec, rest)) = crate::exec::parse_ctx(fields) else { return "bad-case".to_string() };
    let canon = unescape(rest[0]);
    let noisy = unescape(rest[1]);
    let has_comments = rest[2] == "1";
    let data = parse_data(rest[3]);
    // normalisation is idempotent (comment-free text: comments are removed by the step splitter)
    for t in [&canon, &noisy] {
        if has_comments && t == &noisy {
            continue;
        }
        // (continuation colons after a bare CR are the step splitter's business, like comments:
        // `normalize` sees them as ordinary colons)
        if t.contains("\r:") {
            continue;
        }
        let once = t.normalize();
        let twice = once.normalize();
        if once != twice {
            return format!("oracle FAIL normalize not idempotent on {:?}: {:?} then {:?}", t, once, twice);
        }
    }
    // identical step lists: the same steps in the same order; within a step the words are the same
    // in the same order except for where the modifiers sit (the text of a step keeps the modifiers
    // where they were written; which step it is does not depend on that)
    fn modifiers_last(steps: &[String]) -> Vec<String> {
        steps
            .iter()
            .map(|s| {
                // (a flag spelled out, `inv=true` in any case, is the flag)
                let spelled: Vec<String> = s
                    .split(' ')
                    .map(|w| match w.split_once('=') {
                        Some((k, v)) if ["inv", "omit_fwd", "omit_inv"].contains(&k) && v.to_lowercase() == "true" => k.to_string(),
                        _ => w.to_string(),
                    })
                    .collect();
                let (m, mut rest): (Vec<&str>, Vec<&str>) = spelled.iter().map(|w| w.as_str()).partition(|w| ["inv", "omit_fwd", "omit_inv"].contains(w));
                let mut m = m;
                m.sort();
                rest.extend(m);
                rest.join(" ")
            })
            .collect()
    }
    let sc = canon.split_into_steps();
    let sn = noisy.split_into_steps();
    if modifiers_last(&sc) != modifiers_last(&sn) {
        return format!("oracle FAIL step lists differ: {:?} vs {:?} (from {:?})", sc, sn, noisy);
    }
    // steps of a step list are fixed points
    for s in &sn {
        if s.split_into_steps() != vec![s.clone()] {
            return format!("oracle FAIL step {:?} does not split into itself", s);
        }
    }
    // identical behaviour
    crate::exec::with_ctx(&spec, |ctx| {
        let a = ctx.op(&canon);
        let b = ctx.op(&noisy);
        match (a, b) {
            (Err(ea), Err(eb)) => {
                if err_class(&ea) != err_class(&eb) {
                    return format!("oracle FAIL different errors {} / {}", err_class(&ea), err_class(&eb));
                }
                "oracle pass".to_string()
            }
            (Ok(oa), Ok(ob)) => {
                if ctx.steps(oa).ok().map(|v| modifiers_last(v)) != ctx.steps(ob).ok().map(|v| modifiers_last(v)) {
                    return "oracle FAIL ctx.steps differ".to_string();
                }
                for dir in [Fwd, Inv] {
                    let inv = dir == Inv;
                    let mut da = data.clone();
                    let mut db = data.clone();
                    let na = ctx.apply(oa, if inv { Inv } else { Fwd }, &mut da).unwrap_or(usize::MAX);
                    let nb = ctx.apply(ob, if inv { Inv } else { Fwd }, &mut db).unwrap_or(usize::MAX);
                    if na != nb || dump_data(&da) != dump_data(&db) {
                        return format!("oracle FAIL behaviour differs between {:?} and {:?}", canon, noisy);
                    }
                }
                "oracle pass".to_string()
            }
            (a, b) => format!("oracle FAIL one layout instantiates, the other not: canonical ok={} noisy ok={} ({:?})", a.is_ok(), b.is_ok(), noisy),
        }
    })
}

/// a real parameter spelled `text` must take the value the spelling stands for
fn oracle_c16t(fields: &[&str]) -> String {
    let text = unescape(fields[0]);
    let expected = parse_f(fields[1]);
    let mut ctx = Minimal::default();
    ctx.register_op("probe", crate::exec::user_ctor("u:probe").unwrap());
    let op = match Op::new(&format!("probe real={text}"), &ctx) {
        Ok(op) => op,
        Err(e) => return format!("oracle FAIL real={text} rejected ({})", err_class(&e)),
    };
    let got = op.params.real("real").unwrap_or(f64::NAN);
    let same_sign = got.is_sign_negative() == expected.is_sign_negative() || got == 0.0 && expected == 0.0 && text.starts_with("0");
    if !((got - expected).abs() <= 2.0 * f64::EPSILON * expected.abs() && same_sign) {
        return format!("oracle FAIL real={text} is read as {got} but stands for {expected}");
    }
    let v = parse_sexagesimal_public(&text);
    if v.to_bits() != got.to_bits() {
        return format!("oracle FAIL angular::parse_sexagesimal({text}) = {v} differs from the parameter value {got}");
    }
    "oracle pass".to_string()
}

fn parse_sexagesimal_public(s: &str) -> f64 {
    angular::parse_sexagesimal(s)
}

// ----- C17: a PROJ definition instantiates the same operation as its Geodesy counterpart ------

fn oracle_c17(fields: &[&str]) -> String {
    let proj = unescape(fields[0]);
    let geo = unescape(fields[1]);
    let data = parse_data(fields[2]);
    let mut ctx = Plain::default();
    ctx.register_op("addone2", crate::exec::user_ctor("u:add2").unwrap());
    let a = ctx.op(&proj);
    // an empty pipeline has no Geodesy spelling other than the empty text
    let b = ctx.op(&geo);
    match (a, b) {
        (Err(ea), Err(eb)) => {
            if err_class(&ea) == err_class(&eb) {
                "oracle pass".to_string()
            } else {
                format!("oracle FAIL PROJ text gives error {} but its counterpart {:?} gives {}", err_class(&ea), geo, err_class(&eb))
            }
        }
        (Ok(oa), Ok(ob)) => {
            for dir in [Fwd, Inv] {
                let inv = dir == Inv;
                let mut da = data.clone();
                let mut db = data.clone();
                let na = ctx.apply(oa, if inv { Inv } else { Fwd }, &mut da).unwrap_or(usize::MAX);
                let nb = ctx.apply(ob, if inv { Inv } else { Fwd }, &mut db).unwrap_or(usize::MAX);
                if na != nb || dump_data(&da) != dump_data(&db) {
                    return format!(
                        "oracle FAIL {:?} translates to {:?} but means {:?} ({})",
                        proj,
                        parse_proj(&proj).unwrap_or_default(),
                        geo,
                        if inv { "inverse differs" } else { "forward differs" }
                    );
                }
            }
            // translation is idempotent
            if let Ok(t) = parse_proj(&proj) {
                if parse_proj(&t).ok().as_deref() != Some(t.as_str()) {
                    return format!("oracle FAIL translation not idempotent on {:?}", t);
                }
            }
            "oracle pass".to_string()
        }
        (a, b) => format!(
            "oracle FAIL PROJ text instantiates: {}, its counterpart {:?}: {} (translation {:?})",
            a.is_ok(),
            geo,
            b.is_ok(),
            parse_proj(&proj).unwrap_or_default()
        ),
    }
}

/// refusals and pass-through
fn oracle_c17e(fields: &[&str]) -> String {
    let t = unescape(fields[0]);
    let r = parse_proj(&t);
    let has_init = t.split_whitespace().any(|w| w.trim_start_matches('+').starts_with("init="));
    let looks_proj = !t.contains('|') && t.contains("proj");
    if looks_proj && has_init && r.is_ok() {
        return format!("oracle FAIL init clause accepted in {:?}", t);
    }
    // a pipeline header anywhere but in front of the first `step` is a nested pipeline (comments aside)
    let words: Vec<String> = t.lines().map(|l| l.split('#').next().unwrap_or("")).collect::<Vec<_>>().join(" ").split_whitespace().map(|w| w.trim_start_matches('+').to_string()).collect();
    let first_step = words.iter().position(|w| w == "step");
    let late_header = first_step.map(|i| words[i..].iter().any(|w| w == "proj=pipeline")).unwrap_or(false);
    let nested = t.matches("proj=pipeline").count() > 1 || late_header;
    if looks_proj && nested && r.is_ok() {
        return format!("oracle FAIL nested pipeline accepted in {:?}", t);
    }
    if !looks_proj && r.as_deref().ok() != Some(t.as_str()) {
        return format!("oracle FAIL text that is not PROJ syntax was changed: {:?}", t);
    }
    if let Ok(once) = &r {
        if parse_proj(once).ok().as_deref() != Some(once.as_str()) {
            return format!("oracle FAIL translation not idempotent on {:?}: {:?}", t, once);
        }
    }
    "oracle pass".to_string()
}

// ----- C18: handles stay valid, operators never change -----------------------------------------

fn oracle_c18(fields: &[&str]) -> String {
    let probe = vec![Coor4D([1., 2., 3., 4.]), Coor4D([-5., 0.25, 1e3, 2020.])];
    // behaviour fingerprint of every handle at the time it was made
    let mut prints: Vec<String> = vec![];
    let mut seen: Vec<OpHandle> = vec![];
    // the registrations so far, for the resolution order: a user-registered operator (name without
    // colon) wins over a built-in of the same name, for definitions instantiated afterwards
    let calls: Vec<String> = fields[1..].iter().map(|s| s.to_string()).collect();
    let mut call_index = 0usize;
    let mut handles_before = 0usize;
    let mut users: std::collections::BTreeMap<String, String> = std::collections::BTreeMap::new();
    let (_, problem) = crate::exec::run_history(fields[0], &fields[1..], |ctx, handles| {
        let call = calls[call_index].clone();
        call_index += 1;
        let parts: Vec<&str> = call.split('|').collect();
        if parts[0] == "R" {
            users.insert(unescape(parts[1]), parts[2].to_string());
        }
        let made_one = handles.len() > handles_before;
        handles_before = handles.len();
        if parts[0] == "O" && made_one {
            // a user-registered operator that refuses the definition: no handle, and no falling
            // through to a macro or built-in of the same name
            let def = unescape(parts[1]);
            if !def.contains('|') && !def.contains('<') && !def.contains('>') {
                let words: Vec<&str> = def.split_whitespace().collect();
                let name = words.iter().find(|w| !["inv", "omit_fwd", "omit_inv"].contains(w)).copied().unwrap_or("");
                if !name.contains(':') && !name.contains('=') && users.get(name).map(|t| t == "u:needv").unwrap_or(false) && !words.iter().any(|w| w.starts_with("v=")) {
                    return Some(format!("{:?} was instantiated although the user-registered operator {} refuses it", def, name));
                }
            }
        }
        if parts[0] == "O" && made_one {
            let def = unescape(parts[1]);
            if !def.contains('|') && !def.contains('<') && !def.contains('>') {
                let words: Vec<&str> = def.split_whitespace().collect();
                let name = words.iter().find(|w| !["inv", "omit_fwd", "omit_inv"].contains(w)).copied().unwrap_or("");
                let inv = words.iter().any(|w| *w == "inv" || *w == "inv=true");
                if !name.contains(':') && !name.contains('=') {
                    if let Some(tag) = users.get(name) {
                        let delta = if tag == "u:add2" || tag == "u:needv" { 2.0 } else { 3.0 } * if inv { -1.0 } else { 1.0 };
                        let mut d = vec![Coor4D([10., 0., 0., 0.])];
                        let h = *handles.last().unwrap();
                        let _ = ctx.apply(h, Fwd, &mut d);
                        if d[0][0] != 10.0 + delta {
                            return Some(format!("{:?} did not resolve to the user-registered operator {} ({}): x became {}", def, name, tag, d[0][0]));
                        }
                    }
                }
            }
        }
        let fp = |h: OpHandle| -> String {
            let mut out = String::new();
            for dir in [Fwd, Inv] {
                let mut d = probe.clone();
                let n = ctx.apply(h, dir, &mut d);
                out += &format!("{:?}:{};", n.ok(), dump_data(&d));
            }
            out += &format!("{:?};", ctx.steps(h).ok());
            for i in 0..3 {
                out += &format!("{:?};", ctx.params(h, i).ok().map(|p| crate::wire::dump_parsed(&p)));
            }
            out
        };
        for (k, h) in handles.iter().enumerate() {
            if k >= prints.len() {
                if seen.contains(h) {
                    return Some(format!("handle {k} was handed out before"));
                }
                seen.push(*h);
                prints.push(fp(*h));
            } else if fp(*h) != prints[k] {
                return Some(format!("operator behind handle {k} changed after a later call"));
            }
        }
        // an unknown handle is an error
        let mut d = probe.clone();
        if ctx.apply(OpHandle::default(), Fwd, &mut d).is_ok() {
            return Some("a handle never handed out was accepted".to_string());
        }
        None
    });
    match problem {
        Some(p) => format!("oracle FAIL {p}"),
        None => "oracle pass".to_string(),
    }
}

/// run-time registrations take precedence over file based macros, also after the file version was used
fn oracle_c18f(fields: &[&str]) -> String {
    let spec = crate::exec::CtxSpec { kind: fields[0].to_string(), resources: vec![], users: vec![] };
    let name = unescape(fields[1]);
    let body = unescape(fields[2]);
    crate::exec::with_ctx(&spec, |ctx| {
        let probe = vec![Coor4D([1., 2., 3., 4.])];
        let run = |ctx: &dyn Context, h: OpHandle| -> Vec<Coor4D> {
            let mut d = probe.clone();
            let _ = ctx.apply(h, Fwd, &mut d);
            d
        };
        let Ok(before) = ctx.op(&name) else { return format!("oracle skip {name} is not a file based macro here") };
        let from_file = run(ctx, before);
        ctx.register_resource(&name, &body);
        let Ok(direct) = ctx.op(&body) else { return "oracle skip body not instantiable".to_string() };
        let want = run(ctx, direct);
        let Ok(after) = ctx.op(&name) else { return format!("oracle FAIL {name} cannot be instantiated after registering it as {:?}", body) };
        let got = run(ctx, after);
        if !same_bits(&got[0], &want[0]) {
            return format!("oracle FAIL {name} registered at run time as {:?} after a first use still gives {} (the registration gives {})", body, dump_data(&got), dump_data(&want));
        }
        if !same_bits(&run(ctx, before)[0], &from_file[0]) {
            return format!("oracle FAIL the handle of {name} made before the registration changed its behaviour");
        }
        "oracle pass".to_string()
    })
}

/// a user-registered operator shadows a built-in of the same name also as a step of a pipeline
fn oracle_c18p(fields: &[&str]) -> String {
    let spec = crate::exec::CtxSpec { kind: fields[0].to_string(), resources: vec![], users: vec![] };
    let name = unescape(fields[1]);
    crate::exec::with_ctx(&spec, |ctx| {
        ctx.register_op(&name, crate::exec::user_ctor("u:add2").unwrap());
        // steps: (operator, inverted); built-in `addone` adds 1, `noop` nothing, the user operator 2
        let shapes: Vec<Vec<(&str, bool)>> = vec![
            vec![(name.as_str(), false)], vec![(name.as_str(), false), ("noop", false)], vec![("noop", false), (name.as_str(), false)],
            vec![("addone", false), (name.as_str(), true)], vec![("noop", false), (name.as_str(), false), (name.as_str(), false)],
        ];
        for shape in shapes {
            let def = shape.iter().map(|(n, inv)| if *inv { format!("{n} inv") } else { n.to_string() }).collect::<Vec<_>>().join(" | ");
            let want: f64 = 10.0 + shape.iter().map(|(n, inv)| (if *n == name { 2.0 } else if *n == "addone" { 1.0 } else { 0.0 }) * if *inv { -1.0 } else { 1.0 }).sum::<f64>();
            let Ok(op) = ctx.op(&def) else { return format!("oracle FAIL {:?} cannot be instantiated with {name} registered as a user operator", def) };
            let mut d = vec![Coor4D([10., 0., 0., 0.])];
            let _ = ctx.apply(op, Fwd, &mut d);
            if d[0][0] != want {
                return format!("oracle FAIL {:?}: the user-registered operator {name} (adds 2) is not what runs: x = 10 became {} instead of {want}", def, d[0][0]);
            }
        }
        "oracle pass".to_string()
    })
}

fn oracle_c18r(fields: &[&str]) -> String {
    let content = unescape(fields[0]);
    let suffix = unescape(fields[1]);
    let expect_found = fields[2] == "1";
    crate::exec::with_register(&content, |ctx| {
        let got = ctx.get_resource(&format!("gvreg:{suffix}"));
        if got.is_ok() != expect_found {
            return format!("oracle FAIL item {:?} {} in a register that {} it", suffix, if got.is_ok() { "found" } else { "not found" }, if expect_found { "has" } else { "does not have" });
        }
        if let Ok(t) = got {
            let want = match suffix.as_str() {
                "one" => "addone",
                "two" => "addone | addone inv",
                "one_more" => "noop",
                _ => "",
            };
            if !want.is_empty() && t != want {
                return format!("oracle FAIL item {:?} resolves to {:?}, the file says {:?}", suffix, t, want);
            }
            // run-time registrations take precedence
            let mut c2 = Plain::default();
            c2.register_resource(&format!("gvreg:{suffix}"), "noop inv");
            if c2.get_resource(&format!("gvreg:{suffix}")).ok().as_deref() != Some("noop inv") {
                return "oracle FAIL a run-time registration did not take precedence over the file".to_string();
            }
        }
        "oracle pass".to_string()
    })
}


/// threads sharing one context for `apply` (and other contexts clearing the shared grid cache
/// meanwhile) get the results of a sequential application
fn oracle_c18t(fields: &[&str]) -> String {
    let def = unescape(fields[0]);
    let data = parse_data(fields[1]);
    let mut ctx = Plain::new();
    let op = match ctx.op(&def) {
        Ok(op) => op,
        Err(e) => return format!("oracle skip not instantiable ({})", err_class(&e)),
    };
    let mut reference = data.clone();
    let nref = ctx.apply(op, Fwd, &mut reference).unwrap_or(usize::MAX);
    let want = dump_data(&reference);
    let ctx_ref = &ctx;
    let problems: Vec<String> = std::thread::scope(|s| {
        let mut hs = vec![];
        for t in 0..8 {
            let data = data.clone();
            let want = want.clone();
            hs.push(s.spawn(move || {
                for round in 0..20 {
                    if t == 7 && round % 5 == 0 {
                        // another context instantiating, applying and clearing the shared grid cache
                        Plain::clear_grids();
                        let mut other = Plain::new();
                        if let Ok(o2) = other.op("gridshift grids=test.datum,@null") {
                            let mut d2 = vec![Coor4D([0.2, 0.96, 0., 0.])];
                            let _ = other.apply(o2, Fwd, &mut d2);
                        }
                        Plain::clear_grids();
                    }
                    let mut d = data.clone();
                    let n = ctx_ref.apply(op, Fwd, &mut d).unwrap_or(usize::MAX);
                    if n != nref || dump_data(&d) != want {
                        return Some(format!("thread {t} round {round}: result differs from the sequential one"));
                    }
                }
                None
            }));
        }
        hs.into_iter().filter_map(|h| h.join().unwrap_or(Some("thread panicked".to_string()))).collect()
    });
    if let Some(p) = problems.first() {
        return format!("oracle FAIL {p} ({def})");
    }
    // the same on a Minimal context shared by the threads (definitions that need no grids)
    if !def.contains("grids") {
        let mut min = Minimal::new();
        if let Ok(mop) = min.op(&def) {
            let mut reference = data.clone();
            let nref = min.apply(mop, Fwd, &mut reference).unwrap_or(usize::MAX);
            let want = dump_data(&reference);
            let min_ref = &min;
            let problems: Vec<String> = std::thread::scope(|s| {
                let mut hs = vec![];
                for t in 0..8 {
                    let data = data.clone();
                    let want = want.clone();
                    hs.push(s.spawn(move || {
                        for round in 0..40 {
                            let mut d = data.clone();
                            match min_ref.apply(mop, Fwd, &mut d) {
                                Ok(n) if n == nref && dump_data(&d) == want => {}
                                Ok(_) => return Some(format!("thread {t} round {round}: result on a shared Minimal differs from the sequential one")),
                                Err(e) => return Some(format!("thread {t} round {round}: apply on a shared Minimal fails ({})", err_class(&e))),
                            }
                        }
                        None
                    }));
                }
                hs.into_iter().filter_map(|h| h.join().unwrap_or(Some("thread panicked".to_string()))).collect()
            });
            if let Some(p) = problems.first() {
                return format!("oracle FAIL {p} ({def})");
            }
        }
    }
    // handles minted on different threads, in contexts of their own, are all different, and none
    // of them resolves in a context it was not minted in
    let minted: Vec<Vec<OpHandle>> = std::thread::scope(|s| {
        let hs: Vec<_> = (0..4)
            .map(|_| {
                let def = def.clone();
                s.spawn(move || {
                    let mut c = Minimal::default();
                    (0..3).filter_map(|_| c.op(&def).ok()).collect::<Vec<OpHandle>>()
                })
            })
            .collect();
        hs.into_iter().map(|h| h.join().unwrap_or_default()).collect()
    });
    let all: Vec<OpHandle> = minted.iter().flatten().copied().collect();
    for (i, a) in all.iter().enumerate() {
        for b in &all[i + 1..] {
            if a == b {
                return format!("oracle FAIL two instantiations (on different threads) share a handle ({def})");
            }
        }
        let mut d = data.clone();
        if ctx.apply(*a, Fwd, &mut d).is_ok() && *a != op {
            return format!("oracle FAIL a handle minted in another context on another thread resolves here ({def})");
        }
    }
    "oracle pass".to_string()
}

// ----- C19: containers and angular encodings ----------------------------------------------------

fn oracle_c19a(fields: &[&str]) -> String {
    let x = parse_f(fields[0]);
    if !x.is_finite() || x.abs() > 4.0e7 {
        // out of the encodable range: must not panic, nothing more is promised
        let _ = (angular::iso_dm_to_dd(x), angular::dd_to_iso_dm(x), angular::iso_dms_to_dd(x), angular::dd_to_iso_dms(x));
        let _ = (angular::normalize_symmetric(x), angular::normalize_positive(x));
        return "oracle pass".to_string();
    }
    // decimal degrees -> DDDMM.mmm -> decimal degrees, without loss beyond rounding
    let tol = 1e-11 * x.abs().max(1.0);
    let dm = angular::dd_to_iso_dm(x);
    let back = angular::iso_dm_to_dd(dm);
    if !((back - x).abs() <= tol) {
        return format!("oracle FAIL dd -> iso_dm -> dd: {x} became {back} (via {dm})");
    }
    let dms = angular::dd_to_iso_dms(x);
    let back = angular::iso_dms_to_dd(dms);
    if !((back - x).abs() <= tol) {
        return format!("oracle FAIL dd -> iso_dms -> dd: {x} became {back} (via {dms})");
    }
    // the encoding itself: DDD = whole degrees, MM.mmm = minutes, same sign
    let d = x.abs().floor();
    let m = (x.abs() - d) * 60.0;
    let want = (d * 100.0 + m) * if x.is_sign_negative() { -1.0 } else { 1.0 };
    if !((dm - want).abs() <= 1e-9 * want.abs().max(1.0)) {
        return format!("oracle FAIL dd_to_iso_dm({x}) = {dm}, expected {want}");
    }
    // normalisation: an equivalent angle in the stated range
    let r = x.to_radians();
    let pi = std::f64::consts::PI;
    let ns = angular::normalize_symmetric(r);
    let np = angular::normalize_positive(r);
    let equiv = |a: f64, b: f64| {
        let k = ((a - b) / (2.0 * pi)).round();
        (a - b - k * 2.0 * pi).abs() < 1e-9
    };
    if !(ns >= -pi - 1e-12 && ns <= pi + 1e-12) || !equiv(ns, r) {
        return format!("oracle FAIL normalize_symmetric({r}) = {ns}");
    }
    if !(np >= 0.0 && np < 2.0 * pi + 1e-12) || !equiv(np, r) {
        return format!("oracle FAIL normalize_positive({r}) = {np}");
    }
    "oracle pass".to_string()
}

fn oracle_c19d(fields: &[&str]) -> String {
    let d: i32 = fields[0].parse().unwrap_or(0);
    let m: u16 = fields[1].parse().unwrap_or(0);
    let s = parse_f(fields[2]);
    let sign = if d < 0 { -1.0 } else { 1.0 };
    let want = sign * ((d as f64).abs() + (m as f64 + s / 60.0) / 60.0);
    let got = angular::dms_to_dd(d, m, s);
    if !((got - want).abs() <= 1e-12 * want.abs().max(1.0)) {
        return format!("oracle FAIL dms_to_dd({d}, {m}, {s}) = {got}, expected {want}");
    }
    let mm = m as f64 + s / 60.0;
    let want = sign * ((d as f64).abs() + mm / 60.0);
    let got = angular::dm_to_dd(d, mm);
    if !((got - want).abs() <= 1e-12 * want.abs().max(1.0)) {
        return format!("oracle FAIL dm_to_dd({d}, {mm}) = {got}, expected {want}");
    }
    "oracle pass".to_string()
}

fn same(a: f64, b: f64) -> bool {
    a.to_bits() == b.to_bits() || (a.is_nan() && b.is_nan())
}

/// a user container implementing only the required trait methods (so that all defaults are used)
struct Bare(Vec<Coor4D>);
impl CoordinateSet for Bare {
    fn len(&self) -> usize {
        self.0.len()
    }
    fn dim(&self) -> usize {
        4
    }
    fn get_coord(&self, index: usize) -> Coor4D {
        self.0[index]
    }
    fn set_coord(&mut self, index: usize, value: &Coor4D) {
        self.0[index] = *value;
    }
}

/// user containers of 2 and 3 dimensions implementing the required trait methods only: every default
/// method must treat them as the built-in containers of the same dimension are treated
struct BareN(usize, Vec<[f64; 4]>);
impl CoordinateSet for BareN {
    fn len(&self) -> usize {
        self.1.len()
    }
    fn dim(&self) -> usize {
        self.0
    }
    fn get_coord(&self, index: usize) -> Coor4D {
        let v = self.1[index];
        match self.0 {
            2 => Coor4D([v[0], v[1], 0.0, f64::NAN]),
            3 => Coor4D([v[0], v[1], v[2], f64::NAN]),
            _ => Coor4D(v),
        }
    }
    fn set_coord(&mut self, index: usize, value: &Coor4D) {
        for j in 0..self.0 {
            self.1[index][j] = value[j];
        }
    }
}

fn oracle_c19c(fields: &[&str]) -> String {
    let v: Vec<f64> = fields[0].split(',').map(parse_f).collect();
    let c = Coor4D([v[0], v[1], v[2], v[3]]);
    let (h0, t0) = (77.0, 2031.5);
    macro_rules! check {
        ($cond:expr, $($msg:tt)*) => { if !($cond) { return format!("oracle FAIL {}", format!($($msg)*)); } };
    }
    // 4D: vector, array, slice
    let mut v4 = vec![Coor4D::origin(); 2];
    v4.set_coord(1, &c);
    let g = v4.get_coord(1);
    check!((0..4).all(|i| same(g[i], c[i])), "Vec<Coor4D>: wrote {:?} read {:?}", c, g);
    let mut a4 = [Coor4D::origin(); 2];
    a4.set_coord(0, &c);
    check!((0..4).all(|i| same(a4.get_coord(0)[i], c[i])), "[Coor4D; N] roundtrip");
    {
        let mut backing = vec![Coor4D::origin(); 2];
        let mut s4: &mut [Coor4D] = &mut backing[..];
        s4.set_coord(1, &c);
        check!((0..4).all(|i| same(s4.get_coord(1)[i], c[i])), "&mut [Coor4D] roundtrip");
        check!(same(s4.xy(1).0, c[0]) && same(s4.xyz(1).2, c[2]) && same(s4.xyzt(1).3, c[3]), "slice accessors");
    }
    // 3D: epoch reads as NaN
    let mut v3 = vec![Coor3D::origin(); 2];
    v3.set_coord(1, &c);
    let g = v3.get_coord(1);
    check!(same(g[0], c[0]) && same(g[1], c[1]) && same(g[2], c[2]) && g[3].is_nan(), "Vec<Coor3D>: read {:?} for {:?}", g, c);
    // 2D: height 0, epoch NaN
    let mut v2 = vec![Coor2D::origin(); 2];
    v2.set_coord(0, &c);
    let g = v2.get_coord(0);
    check!(same(g[0], c[0]) && same(g[1], c[1]) && g[2] == 0.0 && g[3].is_nan(), "Vec<Coor2D>: read {:?} for {:?}", g, c);
    // 32 bit 2D: values rounded to f32
    let mut v32 = vec![Coor32::origin(); 1];
    v32.set_coord(0, &c);
    let g = v32.get_coord(0);
    check!(same(g[0], c[0] as f32 as f64) && same(g[1], c[1] as f32 as f64) && g[2] == 0.0 && g[3].is_nan(), "Vec<Coor32>: read {:?} for {:?}", g, c);
    // adapters
    let mut ad3 = (vec![Coor3D::origin(); 1], t0);
    ad3.set_coord(0, &c);
    let g = ad3.get_coord(0);
    check!(same(g[0], c[0]) && same(g[1], c[1]) && same(g[2], c[2]) && g[3] == t0, "(Vec<Coor3D>, t): read {:?}", g);
    let mut ad2 = (vec![Coor2D::origin(); 1], h0, t0);
    ad2.set_coord(0, &c);
    let g = ad2.get_coord(0);
    check!(same(g[0], c[0]) && same(g[1], c[1]) && g[2] == h0 && g[3] == t0, "(Vec<Coor2D>, h, t): read {:?}", g);
    let (x, y, z) = ad2.xyz(0);
    check!(same(x, g[0]) && same(y, g[1]) && same(z, g[2]), "(Vec<Coor2D>, h, t): xyz() gives ({x}, {y}, {z}) but get_coord gives {:?}", g);
    let q = ad2.xyzt(0);
    check!(same(q.2, h0) && same(q.3, t0), "(Vec<Coor2D>, h, t): xyzt()");
    let mut ad23 = (vec![Coor3D::origin(); 1], h0, t0);
    ad23.set_coord(0, &c);
    let (x, y, z) = ad23.xyz(0);
    let g = ad23.get_coord(0);
    check!(same(x, g[0]) && same(y, g[1]) && same(z, g[2]) && g[2] == h0, "(Vec<Coor3D>, h, t): xyz() gives ({x}, {y}, {z}) but get_coord gives {:?}", g);
    // fast paths against the trait defaults (a container implementing the required methods only)
    let mut bare = Bare(vec![c, c]);
    let mut fast = vec![c, c];
    check!(same(bare.xy(0).0, fast.xy(0).0) && same(bare.xy(0).1, fast.xy(0).1), "xy fast path");
    check!(same(bare.xyz(1).2, fast.xyz(1).2), "xyz fast path");
    bare.set_xy(1, v[3], v[2]);
    fast.set_xy(1, v[3], v[2]);
    check!((0..4).all(|i| same(bare.get_coord(1)[i], fast.get_coord(1)[i])), "set_xy fast path: {:?} vs {:?}", bare.get_coord(1), fast.get_coord(1));
    bare.set_xyz(0, v[1], v[0], v[3]);
    fast.set_xyz(0, v[1], v[0], v[3]);
    check!((0..4).all(|i| same(bare.get_coord(0)[i], fast.get_coord(0)[i])), "set_xyz fast path");
    // user containers of fewer dimensions: the defaults against the built-in containers of that dimension
    {
        let mut u3 = BareN(3, vec![[v[0], v[1], v[2], 0.0]; 2]);
        let mut b3 = vec![Coor3D([v[0], v[1], v[2]]); 2];
        let mut u2 = BareN(2, vec![[v[0], v[1], 0.0, 0.0]; 2]);
        let mut b2 = vec![Coor2D([v[0], v[1]]); 2];
        macro_rules! agree {
            ($what:expr) => {
                for i in 0..2 {
                    let (a, b) = (u3.get_coord(i), b3.get_coord(i));
                    check!((0..4).all(|j| same(a[j], b[j])), "{}: a user 3D container holds {:?}, Vec<Coor3D> {:?}", $what, a, b);
                    let (a, b) = (u2.get_coord(i), b2.get_coord(i));
                    check!((0..4).all(|j| same(a[j], b[j])), "{}: a user 2D container holds {:?}, Vec<Coor2D> {:?}", $what, a, b);
                }
            };
        }
        agree!("as constructed");
        check!(same(u3.xyz(0).2, b3.xyz(0).2) && same(u3.xyzt(1).3, b3.xyzt(1).3) && same(u2.xyz(0).2, b2.xyz(0).2), "xyz / xyzt defaults on user containers");
        u3.set_xy(0, v[3], 6.5);
        b3.set_xy(0, v[3], 6.5);
        u2.set_xy(0, v[3], 6.5);
        b2.set_xy(0, v[3], 6.5);
        agree!("set_xy");
        u3.set_xyz(1, 1.5, v[2], v[1]);
        b3.set_xyz(1, 1.5, v[2], v[1]);
        u2.set_xyz(1, 1.5, v[2], v[1]);
        b2.set_xyz(1, 1.5, v[2], v[1]);
        agree!("set_xyz");
        u3.set_xyzt(0, 2.5, v[0], v[3], 9.0);
        b3.set_xyzt(0, 2.5, v[0], v[3], 9.0);
        u2.set_xyzt(0, 2.5, v[0], v[3], 9.0);
        b2.set_xyzt(0, 2.5, v[0], v[3], 9.0);
        agree!("set_xyzt");
        // through operators: a plane projection, a 3D conversion, a pipeline
        for def in ["utm zone=32", "cart", "cart | helmert x=10 | cart inv", "addone"] {
            let mut ctx = Minimal::default();
            if let Ok(op) = ctx.op(def) {
                let start = [0.2 + (v[0] % 1.0).abs().min(0.1), 0.9, 100.0, 0.0];
                let mut u3 = BareN(3, vec![start; 2]);
                let mut b3 = vec![Coor3D([start[0], start[1], start[2]]); 2];
                let mut u2 = BareN(2, vec![start; 2]);
                let mut b2 = vec![Coor2D([start[0], start[1]]); 2];
                let n = (ctx.apply(op, Fwd, &mut u3).ok(), ctx.apply(op, Fwd, &mut b3).ok(), ctx.apply(op, Fwd, &mut u2).ok(), ctx.apply(op, Fwd, &mut b2).ok());
                check!(n.0 == n.1 && n.2 == n.3, "{def}: counts differ between user and built-in containers: {:?}", n);
                for i in 0..2 {
                    let (a, b) = (u3.get_coord(i), b3.get_coord(i));
                    check!((0..4).all(|j| same(a[j], b[j])), "{def}: a user 3D container ends with {:?}, Vec<Coor3D> with {:?}", a, b);
                    let (a, b) = (u2.get_coord(i), b2.get_coord(i));
                    check!((0..4).all(|j| same(a[j], b[j])), "{def}: a user 2D container ends with {:?}, Vec<Coor2D> with {:?}", a, b);
                }
            }
        }
    }
    let mut f3 = vec![Coor3D::origin(); 1];
    let mut f2 = vec![Coor2D::origin(); 1];
    f3.set_xy(0, v[0], v[1]);
    f2.set_xy(0, v[0], v[1]);
    check!(same(f3.get_coord(0)[0], v[0]) && same(f2.get_coord(0)[1], v[1]), "set_xy on 3D / 2D containers");
    // tuples: element access out of range gives NaN, never a crash; typed accessors agree
    check!(c.nth(4).is_nan() && c.nth(usize::MAX).is_nan(), "Coor4D::nth out of range");
    check!(Coor3D([v[0], v[1], v[2]]).nth(3).is_nan() && Coor2D([v[0], v[1]]).nth(2).is_nan(), "nth out of range");
    check!(same(c.x(), c[0]) && same(c.y(), c[1]) && same(c.z(), c[2]) && same(c.t(), c[3]), "typed accessors");
    check!(same(c.nth(2), c[2]) && same(c.xyzt().3, c[3]) && same(c.xy().1, c[1]), "bulk accessors");
    let c2 = Coor2D([v[0], v[1]]);
    check!(c2.z().is_nan() && c2.t().is_nan(), "missing dimensions of a 2D tuple");
    let mut w = c;
    w.set_nth(9, 1.0);
    check!((0..4).all(|i| w[i].is_nan()), "set_nth out of range must fill NaN");
    let mut w = c;
    w.set_nth(2, 5.0);
    check!(w[2] == 5.0 && same(w[0], c[0]) && same(w[3], c[3]), "set_nth");
    // arithmetic operators are element-wise
    let o = Coor4D([v[3], v[2], v[1], v[0]]);
    let (s_, d_, p_, q_) = (c + o, c - o, c * o, c / o);
    for i in 0..4 {
        check!(same(s_[i], c[i] + o[i]) && same(d_[i], c[i] - o[i]) && same(p_[i], c[i] * o[i]) && same(q_[i], c[i] / o[i]), "arithmetic element {i}");
    }
    let sc = c.scale(2.0);
    check!((0..4).all(|i| same(sc[i], c[i] * 2.0)), "scale");
    // bulk writes through the trait defaults, on every tuple type: `update` replaces the first
    // min(len, dim) elements and leaves the rest alone, whatever the length of the slice
    fn upd<T: CoordinateTuple + Copy>(t0: T, src: &[f64]) -> Option<String> {
        for len in 0..=src.len() {
            let mut t = t0;
            t.update(&src[..len]);
            for i in 0..t.dim() {
                let want = if i < len { src[i] } else { t0.nth(i) };
                if !same(t.nth(i), want) {
                    return Some(format!("update of a {}D tuple from {len} values: element {i} is {} instead of {}", t.dim(), t.nth(i), want));
                }
            }
        }
        None
    }
    let src = [v[3], v[2], v[1], v[0], 5.5, 6.5];
    for r in [upd(c, &src), upd(Coor3D([v[0], v[1], v[2]]), &src), upd(Coor2D([v[0], v[1]]), &src), upd((v[0], v[1]), &src)] {
        if let Some(m) = r {
            return format!("oracle FAIL {m}");
        }
    }
    {
        let mut t = Coor32([v[0] as f32, v[1] as f32]);
        let t0 = t;
        t.update(&[1.5, 2.5, 3.5]);
        check!(t.nth(0) == 1.5 && t.nth(1) == 2.5, "update of a Coor32 from 3 values gives {:?}", t);
        let mut t = t0;
        t.update(&[4.5]);
        check!(t.nth(0) == 4.5 && same(t.nth(1), t0.nth(1)), "update of a Coor32 from 1 value");
        // the scalar product of two 32 bit tuples is that of their (exactly widened) elements: the products of
        // two binary32 numbers are exact in binary64, so is the method's own definition and the trait's
        let a = Coor32([v[0] as f32, v[1] as f32]);
        let b = Coor32([v[2] as f32, v[3] as f32]);
        let want = a[0] as f64 * b[0] as f64 + a[1] as f64 * b[1] as f64;
        check!(same(a.dot(b), want), "Coor32::dot of {:?} and {:?} is {} instead of {}", a, b, a.dot(b), want);
        // (the trait's default starts its sum at +0: equal as numbers, the sign of a zero aside)
        let td = CoordinateTuple::dot(&a, b);
        check!(td == want || (td.is_nan() && want.is_nan()), "CoordinateTuple::dot of two Coor32 is {} instead of {}", td, want);
        check!(same(a.hypot2(&b), (a[0] as f64 - b[0] as f64).hypot(a[1] as f64 - b[1] as f64)), "hypot2 of two Coor32");
        // a 64 bit tuple combined with a 32 bit one: the 32 bit elements are widened (exactly), the arithmetic is
        // that of binary64 on the full left hand side
        let l = Coor2D([v[0], v[1]]);
        for (name, got, want) in [
            ("+", l + b, [l[0] + b[0] as f64, l[1] + b[1] as f64]),
            ("-", l - b, [l[0] - b[0] as f64, l[1] - b[1] as f64]),
            ("*", l * b, [l[0] * b[0] as f64, l[1] * b[1] as f64]),
            ("/", l / b, [l[0] / b[0] as f64, l[1] / b[1] as f64]),
            ("+ &", l + &b, [l[0] + b[0] as f64, l[1] + b[1] as f64]),
            ("* &", l * &b, [l[0] * b[0] as f64, l[1] * b[1] as f64]),
        ] {
            check!(same(got[0], want[0]) && same(got[1], want[1]), "Coor2D {} Coor32: {:?} {:?} gives {:?} instead of {:?}", name, l, b, got, want);
        }
    }
    // the bulk accessors of every dimension: the elements there are, NaN for the ones there are not
    {
        let c3 = Coor3D([v[0], v[1], v[2]]);
        let c2 = Coor2D([v[0], v[1]]);
        let c32 = Coor32([v[0] as f32, v[1] as f32]);
        let (x, y, z, t) = c.xyzt();
        check!(same(x, v[0]) && same(y, v[1]) && same(z, v[2]) && same(t, v[3]), "xyzt of a 4D tuple");
        let (x, y, z, t) = c3.xyzt();
        check!(same(x, v[0]) && same(y, v[1]) && same(z, v[2]) && t.is_nan(), "xyzt of a 3D tuple is ({}, {}, {}, {})", x, y, z, t);
        let (x, y, z) = c3.xyz();
        check!(same(x, v[0]) && same(y, v[1]) && same(z, v[2]), "xyz of a 3D tuple");
        let (x, y, z, t) = c2.xyzt();
        check!(same(x, v[0]) && same(y, v[1]) && z.is_nan() && t.is_nan(), "xyzt of a 2D tuple is ({}, {}, {}, {})", x, y, z, t);
        let (x, y, z) = c2.xyz();
        check!(same(x, v[0]) && same(y, v[1]) && z.is_nan(), "xyz of a 2D tuple");
        let (x, y, z, t) = c32.xyzt();
        check!(same(x, v[0] as f32 as f64) && same(y, v[1] as f32 as f64) && z.is_nan() && t.is_nan(), "xyzt of a 32 bit tuple");
        let (x, y) = c3.xy();
        check!(same(x, v[0]) && same(y, v[1]), "xy of a 3D tuple");
        let (x, y, z, t) = (v[0], v[1]).xyzt();
        check!(same(x, v[0]) && same(y, v[1]) && z.is_nan() && t.is_nan(), "xyzt of a pair");
    }
    // set_xyz / set_xyzt: all or (too short) all-NaN; fill
    let mut w = c;
    w.set_xyz(1.0, 2.0, 3.0);
    check!(w[0] == 1.0 && w[1] == 2.0 && w[2] == 3.0 && same(w[3], c[3]), "set_xyz on 4D");
    w.set_xyzt(4.0, 5.0, 6.0, 7.0);
    check!(w.0 == [4.0, 5.0, 6.0, 7.0], "set_xyzt on 4D");
    let mut w3 = Coor3D([v[0], v[1], v[2]]);
    w3.set_xyz(1.0, 2.0, 3.0);
    check!(w3.0 == [1.0, 2.0, 3.0], "set_xyz on 3D");
    w3.set_xyzt(4.0, 5.0, 6.0, 7.0);
    check!(w3.0.iter().all(|x| x.is_nan()), "set_xyzt on 3D must fill NaN");
    let mut w2 = Coor2D([v[0], v[1]]);
    w2.set_xyz(1.0, 2.0, 3.0);
    check!(w2.0.iter().all(|x| x.is_nan()), "set_xyz on 2D must fill NaN");
    let mut w2 = Coor2D([v[0], v[1]]);
    w2.set_xy(8.0, 9.0);
    check!(w2.0 == [8.0, 9.0], "set_xy on 2D");
    w2.fill(v[2]);
    check!(same(w2[0], v[2]) && same(w2[1], v[2]), "fill");
    // distances and the dot product are element-wise definitions
    let o3 = Coor3D([v[3], v[2], v[1]]);
    let c3 = Coor3D([v[0], v[1], v[2]]);
    check!(same(c.hypot2(&o), (c[0] - o[0]).hypot(c[1] - o[1])), "hypot2");
    check!(same(c3.hypot3(&o3), (c3[0] - o3[0]).hypot(c3[1] - o3[1]).hypot(c3[2] - o3[2])), "hypot3");
    check!(Coor2D([v[0], v[1]]).hypot3(&Coor2D([v[1], v[0]])).is_nan(), "hypot3 of 2D tuples is NaN");
    let mut dot = 0.0;
    for i in 0..4 {
        dot += c[i] * o[i];
    }
    check!(same(c.dot(o), dot), "dot");
    "oracle pass".to_string()
}

// ----- C20: kp prints what the library computes ------------------------------------------------

fn oracle_c20(fields: &[&str]) -> String {
    let (rc, out) = crate::exec::run_kp(fields);
    let opts: std::collections::BTreeMap<&str, &str> = fields[0].split(';').filter_map(|kv| kv.split_once('=')).collect();
    let flag = |k: &str| opts.get(k).copied() == Some("1");
    let optf = |k: &str| opts.get(k).filter(|v| **v != "-").map(|v| parse_f(v));
    let optn = |k: &str| opts.get(k).filter(|v| **v != "-").and_then(|v| v.parse::<usize>().ok());
    let op_def = unescape(fields[1]);
    let nfiles: usize = fields[2].parse().unwrap_or(0);
    let mut ctx = Plain::new();
    let op = ctx.op(&op_def);
    let unreadable = (0..nfiles).any(|i| fields[3 + i] == "UNREADABLE" || fields[3 + i] == "DIRECTORY" || fields[3 + i].starts_with("BROKEN:"));
    // invalid operations and unreadable files: non-zero status
    if op.is_err() || unreadable {
        return if rc != 0 { "oracle pass".to_string() } else { format!("oracle FAIL exit status 0 although {}", if op.is_err() { "the operation is invalid" } else { "a file is unreadable" }) };
    }
    let op = op.unwrap();
    // the tuples of the input, in order
    let mut tuples: Vec<Coor4D> = vec![];
    let mut maxcols = 0usize;
    for i in 0..nfiles {
        let text = unescape(fields[3 + i]);
        for line in text.lines() {
            let mut words: Vec<&str> = line.split_whitespace().collect();
            if let Some(p) = words.iter().position(|w| w.starts_with('#')) {
                words.truncate(p);
            }
            if words.is_empty() {
                continue;
            }
            maxcols = maxcols.max(words.len());
            // (the harness's own reading of a column, not the library's)
            let v = |k: usize, default: f64| words.get(k).map(|w| ref_sexagesimal(w)).unwrap_or(default);
            let z = optf("z").unwrap_or(v(2, 0.0));
            let t = optf("t").unwrap_or(v(3, f64::NAN));
            tuples.push(Coor4D([v(0, 0.0), v(1, 0.0), z, t]));
        }
    }
    // the statement covers requested decimals and dimension; otherwise only count the lines
    let lines: Vec<&str> = out.lines().collect();
    if rc != 0 {
        // kp's own guard: a roundtrip whose two directions report different numbers of successes ends with an
        // error and prints nothing for the batch (the known finding kp-roundtrip-count-mismatch)
        if flag("rt") {
            let mut data = tuples.clone();
            let dir1 = if flag("inv") { Inv } else { Fwd };
            let dir2 = if flag("inv") { Fwd } else { Inv };
            let n1 = ctx.apply(op, dir1, &mut data).unwrap_or(0);
            let n2 = ctx.apply(op, dir2, &mut data).unwrap_or(0);
            if n1 != n2 {
                return format!("oracle FAIL kp --roundtrip ends with an error and prints nothing for {} coordinate lines: the two directions report different numbers of successes ({n1} and {n2})", tuples.len());
            }
        }
        return format!("oracle FAIL non-zero exit status on valid input ({} tuples)", tuples.len());
    }
    if lines.len() != tuples.len() {
        return format!("oracle FAIL {} output lines for {} coordinate lines", lines.len(), tuples.len());
    }
    // without -D the number of columns printed is the largest number of coordinate columns met in the input
    // (comments do not count), 4 for anything else than 1, 2, 3
    if optn("D").is_none() && !tuples.is_empty() {
        let want = if (1..=3).contains(&maxcols) { maxcols } else { 4 };
        for (k, line) in lines.iter().enumerate() {
            let got = line.split_whitespace().count();
            if got != want {
                return format!("oracle FAIL line {k} has {got} columns, the input has at most {maxcols} coordinate columns (so {want} are due): {:?}", line);
            }
        }
    }
    let (Some(dec), Some(dim)) = (optn("d"), optn("D")) else {
        return "oracle pass line-count-only".to_string();
    };
    // what the library computes for the whole input as one set
    let mut data = tuples.clone();
    let dir1 = if flag("inv") { Inv } else { Fwd };
    let n1 = ctx.apply(op, dir1, &mut data).unwrap_or(0);
    if flag("rt") {
        let dir2 = if flag("inv") { Fwd } else { Inv };
        let n2 = ctx.apply(op, dir2, &mut data).unwrap_or(0);
        if n1 != n2 {
            return "oracle FAIL kp ends normally although the two directions report different numbers of successes".to_string();
        }
        for (d, o) in data.iter_mut().zip(tuples.iter()) {
            *d = *d - *o;
        }
    }
    // ... and for every line's tuple on its own: a line's numbers are the result for that line's tuple, whatever
    // stands on the lines before it (moderate inputs only: the whole-batch inputs are compared as sets)
    if tuples.len() <= 3000 {
        for (k, t) in tuples.iter().enumerate() {
            let mut one = vec![*t];
            let _ = ctx.apply(op, if flag("inv") { Inv } else { Fwd }, &mut one);
            if flag("rt") {
                let _ = ctx.apply(op, if flag("inv") { Fwd } else { Inv }, &mut one);
                one[0] = one[0] - *t;
            }
            if !same_bits(&one[0], &data[k]) {
                return format!("oracle FAIL line {k}: its tuple on its own gives {:?}, among the other lines {:?}", one[0], data[k]);
            }
        }
    }
    for (k, (line, c)) in lines.iter().zip(data.iter()).enumerate() {
        let ncol = match dim {
            1 => 1,
            2 => 2,
            3 => 3,
            _ => 4,
        };
        let want: String = (0..ncol).map(|i| format!("{:.*} ", dec, c[i])).collect();
        if *line != want {
            return format!("oracle FAIL line {k}: kp prints {:?} but the library computes {:?}", line, want);
        }
    }
    "oracle pass".to_string()
}

// ----- C08: grid look-up --------------------------------------------------------------------------

struct RefGrid {
    lat_n: f64,
    lat_s: f64,
    lon_w: f64,
    lon_e: f64,
    dlat: f64,
    dlon: f64,
    rows: usize,
    cols: usize,
    bands: usize,
    /// node values in internal convention: [row][col][band]
    vals: Vec<f64>,
}

impl RefGrid {
    fn node(&self, i: usize, j: usize, b: usize) -> f64 {
        self.vals[(i * self.cols + j) * self.bands + b]
    }
    /// strictly inside or on the border (+ margin in cell units)
    fn contains(&self, lon: f64, lat: f64, margin: f64) -> bool {
        lat >= self.lat_s - margin * self.dlat && lat <= self.lat_n + margin * self.dlat && lon >= self.lon_w - margin * self.dlon && lon <= self.lon_e + margin * self.dlon
    }
    /// bilinear interpolation in the cell holding the point (the nearest cell outside the grid)
    fn value(&self, lon: f64, lat: f64, b: usize) -> (f64, f64, f64) {
        let fi = (self.lat_n - lat) / self.dlat;
        let fj = (lon - self.lon_w) / self.dlon;
        let j0 = (fj.floor().max(0.0) as usize).min(self.cols - 2);
        let i1 = (fi.ceil().max(1.0) as usize).min(self.rows - 1);
        let i0 = i1 - 1;
        let a = fj - j0 as f64;
        let c = i1 as f64 - fi;
        let (ll, lr, ul, ur) = (self.node(i1, j0, b), self.node(i1, j0 + 1, b), self.node(i0, j0, b), self.node(i0, j0 + 1, b));
        let v = (1.0 - a) * ((1.0 - c) * ll + c * ul) + a * ((1.0 - c) * lr + c * ur);
        let lo = ll.min(lr).min(ul).min(ur);
        let hi = ll.max(lr).max(ul).max(ur);
        (v, lo, hi)
    }
}

/// internal convention of Gravsoft node values (see `normalize_gravsoft_grid_values`)
fn internal_values(file: &[f64], bands: usize, projected: bool) -> Vec<f64> {
    if projected || bands == 1 {
        return file.to_vec();
    }
    let mut out = vec![];
    for node in file.chunks(bands) {
        if bands == 2 {
            out.push((node[1] / 3600.0).to_radians());
            out.push((node[0] / 3600.0).to_radians());
        } else {
            out.push(node[1] / 1000.0);
            out.push(node[0] / 1000.0);
            out.push(node[2] / 1000.0);
        }
    }
    out
}

fn approx(a: f64, b: f64, scale: f64) -> bool {
    (a - b).abs() <= 4e-7 * scale.max(a.abs()).max(b.abs()) + 1e-13
}

fn oracle_c08(fields: &[&str]) -> String {
    let g = match crate::exec::decode_grid("gravsoft", fields[0]) {
        Ok(g) => g,
        Err(e) => return format!("oracle FAIL well-formed grid rejected ({})", err_class(&e)),
    };
    let margin = parse_f(fields[1]);
    let h: Vec<&str> = fields[2].split(',').collect();
    let f = |k: usize| parse_f(h[k]);
    let (rows, cols, bands): (usize, usize, usize) = (h[6].parse().unwrap(), h[7].parse().unwrap(), h[8].parse().unwrap());
    let projected = h[9] == "1";
    let u = if projected { 1.0 } else { std::f64::consts::PI / 180.0 };
    let file: Vec<f64> = fields[3].split(',').map(parse_f).collect();
    let r = RefGrid { lat_n: f(0) * u, lat_s: f(1) * u, lon_w: f(2) * u, lon_e: f(3) * u, dlat: f(4) * u, dlon: f(5) * u, rows, cols, bands, vals: internal_values(&file, bands, projected) };
    if g.bands() != bands {
        return format!("oracle FAIL {} bands decoded, the file has {}", g.bands(), bands);
    }
    let pts = crate::exec::parse_points(fields[4]);
    let classes: Vec<&str> = fields[5].split(',').collect();
    let scale = r.vals.iter().fold(0.0f64, |a, b| a.max(b.abs()));
    for (p, class) in pts.iter().zip(classes.iter()) {
        let got = g.at(p, margin);
        // stay clear of the rounding of the border test itself
        let eps = 1e-9;
        let surely_in = r.contains(p[0], p[1], margin - eps);
        let surely_out = !r.contains(p[0], p[1], margin + eps);
        match got {
            None => {
                if surely_in {
                    return format!("oracle FAIL point ({}, {}) [{class}] is within the grid + margin {margin} but no value is delivered", p[0], p[1]);
                }
            }
            Some(v) => {
                if surely_out {
                    return format!("oracle FAIL point ({}, {}) [{class}] is outside the grid + margin {margin} but a value is delivered", p[0], p[1]);
                }
                for b in 0..bands {
                    let (want, lo, hi) = r.value(p[0], p[1], b);
                    if !approx(v[b], want, scale) {
                        return format!("oracle FAIL band {b} at ({}, {}) [{class}]: {} delivered, bilinear interpolation of the nodes gives {}", p[0], p[1], v[b], want);
                    }
                    if *class == "interior" || *class == "edge" || *class == "node" {
                        let slack = 4e-7 * scale + 1e-13;
                        if v[b] < lo - slack || v[b] > hi + slack {
                            return format!("oracle FAIL band {b} at ({}, {}): {} outside the range [{lo}, {hi}] of the corner values", p[0], p[1], v[b]);
                        }
                    }
                }
            }
        }
    }
    "oracle pass".to_string()
}

fn oracle_c08l(fields: &[&str]) -> String {
    let k: usize = fields[0].parse().unwrap_or(0);
    let mut grids = vec![];
    for i in 0..k {
        match crate::exec::decode_grid("gravsoft", fields[1 + i]) {
            Ok(g) => grids.push(g),
            Err(e) => return format!("oracle FAIL well-formed grid rejected ({})", err_class(&e)),
        }
    }
    let null = fields[1 + k] == "1";
    for p in crate::exec::parse_points(fields[2 + k]) {
        let mut want = None;
        for m in [0.0, 0.5] {
            if want.is_none() {
                want = grids.iter().find_map(|g| g.at(&p, m));
            }
        }
        if want.is_none() && null {
            want = Some(Coor4D::origin());
        }
        let got = grids_at(&grids, &p, null);
        if crate::exec::dump_at(got) != crate::exec::dump_at(want) {
            return format!("oracle FAIL grids_at at ({}, {}): {} but the first containing grid (then the first within the margin{}) gives {}", p[0], p[1], crate::exec::dump_at(got), if null { ", then the null grid" } else { "" }, crate::exec::dump_at(want));
        }
    }
    "oracle pass".to_string()
}

fn oracle_c08n(fields: &[&str]) -> String {
    let g = match crate::exec::decode_grid("ntv2", fields[0]) {
        Ok(g) => g,
        Err(e) => return format!("oracle FAIL well-formed NTv2 file rejected ({})", err_class(&e)),
    };
    let margin = parse_f(fields[1]);
    let n: usize = fields[2].parse().unwrap_or(0);
    let u = std::f64::consts::PI / 180.0;
    let mut subs: Vec<(String, String, RefGrid)> = vec![];
    for i in 0..n {
        let h: Vec<&str> = fields[3 + 4 * i + 2].split(',').collect();
        let f = |k: usize| parse_f(h[k]);
        let (rows, cols): (usize, usize) = (h[6].parse().unwrap(), h[7].parse().unwrap());
        let file: Vec<f64> = fields[3 + 4 * i + 3].split(',').map(parse_f).collect();
        // file bands: (lat shift, lon shift) in arc seconds; internal: (lon, lat) in radians
        let mut vals = vec![];
        for node in file.chunks(2) {
            vals.push((node[1] / 3600.0).to_radians());
            vals.push((node[0] / 3600.0).to_radians());
        }
        subs.push((fields[3 + 4 * i].to_string(), fields[3 + 4 * i + 1].to_string(), RefGrid { lat_n: f(0) * u, lat_s: f(1) * u, lon_w: f(2) * u, lon_e: f(3) * u, dlat: f(4) * u, dlon: f(5) * u, rows, cols, bands: 2, vals }));
    }
    let depth = |name: &str| -> usize {
        let mut d = 0;
        let mut cur = name.to_string();
        while let Some(s) = subs.iter().find(|s| s.0 == cur) {
            if s.1 == "NONE" {
                break;
            }
            cur = s.1.clone();
            d += 1;
        }
        d
    };
    let scale = subs.iter().flat_map(|s| s.2.vals.iter()).fold(0.0f64, |a, b| a.max(b.abs()));
    for p in crate::exec::parse_points(fields[3 + 4 * n]) {
        // a point is on a border line (within 1e-9 rad: the nodes and edges of the queries), or well away from it
        // (1e-3 cell); in between, the 1e-6 tolerances of the border rules decide and the oracle says nothing
        let on = |a: f64, b: f64| (a - b).abs() < 1e-9;
        let unclear = subs.iter().any(|s| {
            let r = &s.2;
            [(p[0], r.lon_w, r.dlon), (p[0], r.lon_e, r.dlon), (p[1], r.lat_s, r.dlat), (p[1], r.lat_n, r.dlat)].iter().any(|(x, l, d)| !on(*x, *l) && ((x - l) / d).abs() < 1e-3)
        });
        let got = g.at(&p, margin);
        if unclear {
            continue;
        }
        // the NTv2 rule: a point on the northern or eastern border of a sub-grid is outside it (for the grid at the
        // top this only means that the search does not descend). Closed extents with the snapped borders:
        let closed = |r: &RefGrid| (p[1] > r.lat_s || on(p[1], r.lat_s)) && (p[1] < r.lat_n || on(p[1], r.lat_n)) && (p[0] > r.lon_w || on(p[0], r.lon_w)) && (p[0] < r.lon_e || on(p[0], r.lon_e));
        let upper = |r: &RefGrid| on(p[1], r.lat_n) || on(p[0], r.lon_e);
        let mut best = subs.iter().find(|s| s.1 == "NONE" && closed(&s.2));
        if let Some(top) = best {
            if !upper(&top.2) {
                let mut cur = top;
                while let Some(c) = subs.iter().find(|s| s.1 == cur.0 && closed(&s.2) && !upper(&s.2)) {
                    cur = c;
                }
                best = Some(cur);
            }
        }
        let _ = &depth;
        match (best, got) {
            (Some(s), Some(v)) => {
                for b in 0..2 {
                    let (want, _, _) = s.2.value(p[0], p[1], b);
                    if !approx(v[b], want, scale) {
                        return format!("oracle FAIL NTv2 band {b} at ({}, {}): {} delivered, the deepest sub-grid {} gives {}", p[0], p[1], v[b], s.0, want);
                    }
                }
            }
            (Some(s), None) => {
                // (on a border line, whether a point a rounding error away from it is inside is not for the oracle to say)
                let on_a_line = subs.iter().any(|s| on(p[0], s.2.lon_w) || on(p[0], s.2.lon_e) || on(p[1], s.2.lat_s) || on(p[1], s.2.lat_n));
                if !on_a_line {
                    return format!("oracle FAIL NTv2: no value at ({}, {}) inside sub-grid {}", p[0], p[1], s.0);
                }
            }
            (None, Some(v)) => {
                // within the margin of a root grid this is legitimate
                let root_ok = subs.iter().any(|s| s.1 == "NONE" && s.2.contains(p[0], p[1], margin + 1e-9));
                if !root_ok {
                    return format!("oracle FAIL NTv2: value {:?} delivered at ({}, {}) outside every sub-grid and margin", v, p[0], p[1]);
                }
            }
            (None, None) => {}
        }
    }
    "oracle pass".to_string()
}

/// sign, order and unit conventions of the grid operators, on the shipped grids
fn oracle_c08o(fields: &[&str]) -> String {
    let def = unescape(fields[0]);
    let mut ctx = Plain::default();
    let op = match ctx.op(&def) {
        Ok(op) => op,
        Err(e) => return format!("oracle FAIL {def} not instantiable ({})", err_class(&e)),
    };
    let pts = vec![
        Coor4D::geo(55.0, 12.0, 100.0, 2020.0),
        Coor4D::geo(56.5, 10.25, 0.0, 2020.0),
        Coor4D::geo(54.0, 8.0, 10.0, 2020.0),
        Coor4D::geo(58.0, 16.0, 10.0, 2020.0),
        Coor4D::geo(41.3874, 2.1686, 0.0, 0.0),
        Coor4D::geo(0.0, 100.0, 0.0, 0.0),
    ];
    let first_grid = def.split("grids=").nth(1).unwrap_or("").split(|c| c == ',' || c == ' ').next().unwrap_or("").trim_start_matches('@').to_string();
    // a point outside all grids is failed in the inverse direction as in the forward one: NaN and not counted,
    // alone or among points inside coverage; with the null grid it passes unchanged and is counted
    // (the shipped grids cover Denmark, one of them Catalonia; the point inside is well inside all the Danish ones)
    if !def.starts_with("deflection") && !def.contains("100800401") {
        // (a position that is not a number is in no grid)
        let mut nowhere = Coor4D::geo(56.5, 12.0, 0.0, 2020.0);
        // (with the null grid the statement is about points: London stands in)
        if def.contains("@null") {
            nowhere = Coor4D::geo(51.5, -0.12, 30.0, 2020.0);
        } else {
            nowhere[if def.contains("geoid") { 1 } else { 0 }] = f64::NAN;
        }
        let outside = [Coor4D::geo(41.3874, 2.1686, 0.0, 2020.0), nowhere, Coor4D::geo(-33.0, 151.0, 0.0, 2020.0)];
        let inside = Coor4D::geo(56.5, 12.0, 100.0, 2020.0);
        let prep = |p: &Coor4D| if def.starts_with("deformation") { Ellipsoid::default().cartesian(p) } else { *p };
        for forward in [true, false] {
            let mut d = vec![prep(&inside), prep(&outside[0]), prep(&outside[1]), prep(&inside), prep(&outside[2])];
            let before = d.clone();
            let n = ctx.apply(op, if forward { Fwd } else { Inv }, &mut d).unwrap_or(usize::MAX);
            let which = if forward { "forward" } else { "inverse" };
            for k in [1usize, 2, 4] {
                if def.contains("@null") {
                    let same_or_nan = (0..4).all(|j| d[k][j].to_bits() == before[k][j].to_bits() || (d[k][j].is_nan() && before[k][j].is_nan()));
                    if !same_or_nan {
                        return format!("oracle FAIL {def} {which}: a point outside all grids must pass unchanged with the null grid, got {:?}", d[k]);
                    }
                } else if !(d[k][0].is_nan() && d[k][1].is_nan()) {
                    return format!("oracle FAIL {def} {which}: the point {:?} outside all grids comes back as {:?}, not as NaN", before[k], d[k]);
                }
            }
            let want = if def.contains("@null") { 5 } else { 2 };
            if n != want {
                return format!("oracle FAIL {def} {which}: {n} successes for two points inside and three outside all grids (null grid: {})", def.contains("@null"));
            }
        }
    }
    // among several grids the first one containing the point is used: a point a few millimetres inside the north or
    // east border of the first grid (54-58 N, 8-16 E for all the Danish test grids) gets the first grid's correction
    if def.starts_with("gridshift") && def.contains(',') && !def.contains("@missing") && !def.contains("test_subset") {
        if let Ok(first) = ctx.get_grid(&first_grid) {
            for (lat, lon) in [(58.0 - 1e-7, 12.25), (56.25, 16.0 - 1e-7), (58.0 - 5e-5, 9.5), (54.0 + 1e-7, 12.25), (56.25, 8.0 + 1e-7)] {
                let p = Coor4D::geo(lat, lon, 10.0, 2020.0);
                let Some(corr) = first.at(&p, 0.5) else { continue };
                let mut d = vec![p];
                let n = ctx.apply(op, Fwd, &mut d).unwrap_or(usize::MAX);
                let want = if first.bands() == 1 { [p[0], p[1], p[2] - corr[0]] } else { [p[0] + corr[0], p[1] + corr[1], p[2]] };
                if n != 1 || !((d[0][0] - want[0]).abs() <= 1e-15) || !((d[0][1] - want[1]).abs() <= 1e-15) || !((d[0][2] - want[2]).abs() <= 1e-9) {
                    return format!("oracle FAIL {def}: the point {lat} N {lon} E inside the first grid gets ({}, {}, {}), the first grid's correction gives ({}, {}, {})", d[0][0], d[0][1], d[0][2], want[0], want[1], want[2]);
                }
            }
        }
    }
    // points on the borders of the grid and within a metre of them belong to the grid (the margin beyond continues
    // it): every operator delivers something there, also those that look up the neighbourhood of the point
    if !def.contains("100800401") {
        for (lat, lon) in [(58.0, 12.0), (57.999995, 12.0), (56.0, 16.0), (56.0, 15.999995), (58.0, 16.0), (54.0, 8.0), (54.0, 12.0), (56.0, 8.0), (58.2, 16.2), (53.8, 7.8),
            // a hair outside the south and west borders (inside every tolerance but the interpolation's own)
            (54.0 - 2e-8, 12.25), (56.25, 8.0 - 2e-8), (54.0 - 3e-7, 9.5), (54.0 - 2e-8, 8.0 - 2e-8)] {
            let p = Coor4D::geo(lat, lon, 10.0, 2020.0);
            let mut d = if def.starts_with("deformation") { vec![Ellipsoid::default().cartesian(&p)] } else if def.starts_with("deflection") { vec![Coor4D([lat, lon, 10.0, 2020.0])] } else { vec![p] };
            // (test_subset.datum is smaller: 55.5-57.5 N, 11-13 E; with it first in the list the other grid answers)
            let n = ctx.apply(op, Fwd, &mut d).unwrap_or(usize::MAX);
            if n != 1 || d[0][0].is_nan() || d[0][1].is_nan() || d[0][2].is_nan() {
                if def.contains("test_subset.datum,@null") {
                    continue;
                }
                return format!("oracle FAIL {def}: the point {lat} N {lon} E on or next to the border of the grid is not served (count {n}, result {:?})", d[0]);
            }
        }
    }
    for p in pts {
        let mut d = if def.starts_with("deformation") { vec![Ellipsoid::default().cartesian(&p)] } else { vec![p] };
        let before = d[0];
        let n = ctx.apply(op, Fwd, &mut d).unwrap_or(usize::MAX);
        if n > 1 {
            return "oracle FAIL count".to_string();
        }
        if n == 0 {
            if !(d[0][0].is_nan() && d[0][1].is_nan()) && !def.contains("@null") {
                return format!("oracle FAIL {def}: a tuple not counted was not set to NaN: {:?}", d[0]);
            }
            continue;
        }
        if def.starts_with("gridshift") && !def.contains(',') {
            let grid = match ctx.get_grid(&first_grid) {
                Ok(g) => g,
                Err(_) => continue,
            };
            let Some(corr) = grid.at(&before, 0.5) else { continue };
            if grid.bands() == 1 {
                // geoid heights are subtracted in the forward direction
                if !((d[0][2] - (before[2] - corr[0])).abs() <= 1e-9) || d[0][0] != before[0] || d[0][1] != before[1] {
                    return format!("oracle FAIL {def}: forward must subtract the geoid height {} from {}: got {}", corr[0], before[2], d[0][2]);
                }
            } else {
                // datum shifts are added in the forward direction
                if !((d[0][0] - (before[0] + corr[0])).abs() <= 1e-15) || !((d[0][1] - (before[1] + corr[1])).abs() <= 1e-15) || d[0][2] != before[2] {
                    return format!("oracle FAIL {def}: forward must add the shift ({}, {}) to ({}, {}): got ({}, {})", corr[0], corr[1], before[0], before[1], d[0][0], d[0][1]);
                }
            }
        }
        // (unreachable for failed tuples: see `continue` above)
        // the inverse undoes the forward inside coverage (not for the one-way deflection, nor raw output)
        // (nor for the test file whose sub-grid deliberately disagrees with its parent: the round trip
        // across such a boundary is not defined)
        // (nor for lists of unrelated grids — the NTv2 test file and the Gravsoft one disagree by 40 m —: a point on the
        // border goes out through one grid and comes back through the other)
        let unrelated = def.contains(".gsb,test.datum");
        if !def.starts_with("deflection") && !def.contains(" raw") && !def.contains("with_subgrid") && !unrelated {
            let fwd = d[0];
            let m = ctx.apply(op, Inv, &mut d).unwrap_or(usize::MAX);
            if m == 1 {
                let tol = if def.starts_with("deformation") { 1e-3 } else { 1e-9 };
                for i in 0..3 {
                    if !((d[0][i] - before[i]).abs() <= tol * (1.0 + before[i].abs() * 1e-7)) {
                        return format!("oracle FAIL {def}: inverse of forward gives {} for {} (element {i}, via {})", d[0][i], before[i], fwd[i]);
                    }
                }
            }
        }
    }
    "oracle pass".to_string()
}

/// grid operators over a LIST of in-memory grids with constant node values: which grid was used
/// is read off the correction; it must be the first grid containing the point, then the first
/// one within the half-cell margin
fn oracle_c08d(fields: &[&str]) -> String {
    let kind = fields[0]; // gridshift | deformation | deflection
    let k: usize = fields[1].parse().unwrap_or(0);
    let mut ctx = crate::exec::GridCtx::new();
    let mut refs: Vec<RefGrid> = vec![];
    let mut names = vec![];
    for i in 0..k {
        let text = unescape(fields[2 + 2 * i]);
        let h: Vec<f64> = fields[3 + 2 * i].split(',').map(parse_f).collect();
        let g = match BaseGrid::gravsoft(text.as_bytes()) {
            Ok(g) => g,
            Err(e) => return format!("oracle FAIL well-formed grid rejected ({})", err_class(&e)),
        };
        let name = format!("g{i}.grid");
        ctx.grids.insert(name.clone(), std::sync::Arc::new(g));
        names.push(name);
        let u = std::f64::consts::PI / 180.0;
        refs.push(RefGrid { lat_n: h[0] * u, lat_s: h[1] * u, lon_w: h[2] * u, lon_e: h[3] * u, dlat: h[4] * u, dlon: h[5] * u, rows: 2, cols: 2, bands: 1, vals: vec![] });
    }
    let null = fields[2 + 2 * k] == "1";
    let pts = crate::exec::parse_points(fields[3 + 2 * k]);
    let mut def = match kind {
        "deformation" => format!("deformation raw dt=1 grids={}", names.join(",")),
        "deflection" => format!("deflection grids={}", names.join(",")),
        _ => format!("gridshift grids={}", names.join(",")),
    };
    if null {
        def += ",@null";
    }
    let op = match ctx.op(&def) {
        Ok(op) => op,
        Err(e) => return format!("oracle FAIL {def} not instantiable ({})", err_class(&e)),
    };
    // the whole batch at once must give what the points give one by one (no state from point to point)
    {
        let inputs: Vec<Coor4D> = pts
            .iter()
            .map(|p| match kind {
                "deformation" => Ellipsoid::default().cartesian(&Coor4D([p[0], p[1], 0., 2000.])),
                "deflection" => Coor4D([p[1].to_degrees(), p[0].to_degrees(), 10., 2000.]),
                _ => Coor4D([p[0], p[1], 10., 2000.]),
            })
            .collect();
        for fwd in [true, false] {
            if !fwd && kind == "deflection" {
                continue;
            }
            let mut all = inputs.clone();
            let _ = ctx.apply(op, if fwd { Fwd } else { Inv }, &mut all);
            for (i, c) in inputs.iter().enumerate() {
                let mut one = [*c];
                let _ = ctx.apply(op, if fwd { Fwd } else { Inv }, &mut one);
                if !same_bits(&one[0], &all[i]) {
                    return format!("oracle FAIL {def}: point {i} gives ({}, {}, {}) in the batch but ({}, {}, {}) alone", all[i][0], all[i][1], all[i][2], one[0][0], one[0][1], one[0][2]);
                }
            }
        }
    }
    for p in pts {
        let eps = if kind == "deflection" { 1e-6 } else { 1e-9 };
        // expected grid: first containing at margin 0, then first within margin 0.5
        let pick = |m: f64| refs.iter().position(|r| r.contains(p[0], p[1], m));
        let (sure0, maybe0) = (pick(-eps), pick(eps));
        let (sure5, maybe5) = (pick(0.5 - eps), pick(0.5 + eps));
        let expected: Option<usize> = if sure0.is_some() && sure0 == maybe0 {
            sure0
        } else if maybe0.is_some() {
            continue; // on a border line: not decided here
        } else if sure5 == maybe5 {
            sure5
        } else {
            continue;
        };
        let input = match kind {
            "deformation" => Ellipsoid::default().cartesian(&Coor4D([p[0], p[1], 0., 2000.])),
            "deflection" => Coor4D([p[1].to_degrees(), p[0].to_degrees(), 10., 2000.]),
            _ => Coor4D([p[0], p[1], 10., 2000.]),
        };
        let mut d = vec![input];
        let n = ctx.apply(op, Fwd, &mut d).unwrap_or(usize::MAX);
        // which grid was used? constant node values i+1 (in the grid's file unit)
        let used: Option<usize> = if n == 0 {
            None
        } else {
            match kind {
                "deformation" => {
                    let len = d[0][3] * 1000.0; // mm/yr * 1 yr
                    let i = (len / 3f64.sqrt()).round() as i64 - 1;
                    if i >= 0 && (i as usize) < k && (len - (i + 1) as f64 * 3f64.sqrt()).abs() < 1e-3 { Some(i as usize) } else { Some(usize::MAX) }
                }
                "gridshift" => {
                    let shift = ((d[0][0] - input[0]).to_degrees() * 3600.0).round() as i64 - 1;
                    if d[0][0] == input[0] { Some(usize::MAX - 1) } else if shift >= 0 && (shift as usize) < k { Some(shift as usize) } else { Some(usize::MAX) }
                }
                _ => Some(usize::MAX - 2),
            }
        };
        match (expected, used) {
            (None, None) => {
                if null {
                    return format!("oracle FAIL {def}: point ({}, {}) outside all grids must pass with the null grid", p[0], p[1]);
                }
            }
            (None, Some(u)) => {
                // (with the null grid a point outside every grid passes as it came, whatever the operator would
                // have put in its place inside a grid)
                if null && kind == "deformation" && !(n == 1 && same_bits(&d[0], &input)) {
                    return format!("oracle FAIL {def}: point ({}, {}) outside all grids must pass unchanged with the null grid, but came back as ({}, {}, {}, {}) (count {n})", p[0], p[1], d[0][0], d[0][1], d[0][2], d[0][3]);
                }
                if !(null && (u == usize::MAX - 1 || (kind == "deformation" && d[0][3].is_nan()) || kind == "deformation")) && kind != "deflection" {
                    return format!("oracle FAIL {def}: point ({}, {}) is outside all grids and margins but was transformed (grid {u})", p[0], p[1]);
                }
            }
            (Some(e), None) => return format!("oracle FAIL {def}: point ({}, {}) lies in grid {e} (or its margin) but was failed", p[0], p[1]),
            (Some(e), Some(u)) => {
                if kind != "deflection" && u != e {
                    return format!("oracle FAIL {def}: point ({}, {}) must take its value from grid {e} (first hit) but grid {u} was used", p[0], p[1]);
                }
            }
        }
    }
    "oracle pass".to_string()
}

/// decoding a (damaged) grid file and using what comes out: no panic (the worker catches it), no
/// hang (the supervisor times it), allocation in proportion to the file, safe queries
fn oracle_c15(fmt: &str, bytes: &[u8], points: &str) -> String {
    let before = crate::alloc_count::mark();
    let decoded: Result<std::sync::Arc<dyn Grid>, Error> = if fmt == "ntv2" {
        Ntv2Grid::new(bytes).map(|g| std::sync::Arc::new(g) as std::sync::Arc<dyn Grid>)
    } else {
        BaseGrid::gravsoft(bytes).map(|g| std::sync::Arc::new(g) as std::sync::Arc<dyn Grid>)
    };
    let used = crate::alloc_count::peak().saturating_sub(before);
    let allowed = 64 * bytes.len() + (1 << 20);
    if used > allowed {
        return format!("oracle FAIL decoding a file of {} bytes allocated {} bytes", bytes.len(), used);
    }
    let Ok(g) = decoded else {
        return "oracle pass rejected".to_string();
    };
    let bands = g.bands();
    if bands == 0 || bands > 3 {
        return format!("oracle FAIL decoded grid reports {bands} bands");
    }
    let mut pts = crate::exec::parse_points(points);
    for v in [f64::NAN, f64::INFINITY, f64::NEG_INFINITY, 1e300, -1e300, 0.0, f64::MIN_POSITIVE] {
        pts.push(Coor4D([v, 1.0, 0.0, 0.0]));
        pts.push(Coor4D([0.2, v, 0.0, 0.0]));
        pts.push(Coor4D([v, v, 0.0, 0.0]));
    }
    for p in &pts {
        for margin in [0.0, 0.5, 3.0, 1e9, f64::INFINITY] {
            let _ = g.at(p, margin);
        }
    }
    // ... and through the operators
    let mut ctx = crate::exec::GridCtx::new();
    ctx.grids.insert("damaged.grid".to_string(), g.clone());
    let defs: &[&str] = match bands {
        1 => &["gridshift grids=damaged.grid", "deflection grids=damaged.grid", "gridshift grids=damaged.grid,@null"],
        2 => &["gridshift grids=damaged.grid", "gridshift grids=damaged.grid,@null"],
        _ => &["deformation dt=1 grids=damaged.grid", "deformation raw dt=1 grids=damaged.grid,@null"],
    };
    for def in defs {
        let Ok(op) = ctx.op(def) else {
            return format!("oracle FAIL {def} not instantiable over a decoded grid");
        };
        for dir in [Fwd, Inv] {
            let mut data: Vec<Coor4D> = pts.iter().map(|p| if bands == 3 { Ellipsoid::default().cartesian(&Coor4D([p[0], p[1], 0., 0.])) } else { *p }).collect();
            let n = data.len();
            match ctx.apply(op, dir, &mut data) {
                Ok(k) if k > n => return format!("oracle FAIL {def}: {k} successes for {n} tuples"),
                _ => {}
            }
            if data.len() != n {
                return format!("oracle FAIL {def}: operand set changed length");
            }
        }
    }
    "oracle pass decoded".to_string()
}

/// the larger shipped files, damaged by the harness
fn oracle_c15f(fields: &[&str]) -> String {
    let Ok(mut bytes) = std::fs::read(fields[0]) else {
        return "oracle FAIL shipped grid file not readable".to_string();
    };
    let spec = fields[1];
    if let Some(n) = spec.strip_prefix("trunc:") {
        bytes.truncate(n.parse().unwrap_or(0));
    } else if let Some(n) = spec.strip_prefix("flip:") {
        let bit: usize = n.parse().unwrap_or(0);
        if bit / 8 < bytes.len() {
            bytes[bit / 8] ^= 1 << (bit % 8);
        }
    }
    let fmt = if fields[0].ends_with(".gsb") { "ntv2" } else { "gravsoftb" };
    let u = std::f64::consts::PI / 180.0;
    let pts = format!("{},{};{},{}", fbits(12.0 * u), fbits(56.0 * u), fbits(2.0 * u), fbits(41.5 * u));
    let r = oracle_c15(fmt, &bytes, &pts);
    if spec == "id" && r != "oracle pass decoded" {
        return format!("oracle FAIL intact shipped file {}: {r}", fields[0]);
    }
    r
}

/// the ASCII rendering (.gsa) of a shipped NTv2 file against the decoded binary (.gsb): header
/// geometry and every node value of every sub-grid
fn oracle_c15a(fields: &[&str]) -> String {
    let name = fields[0];
    let Ok(text) = std::fs::read_to_string(format!("geodesy/gsb/{name}.gsa")) else {
        return "oracle FAIL .gsa twin not readable".to_string();
    };
    let Ok(bytes) = std::fs::read(format!("geodesy/gsb/{name}.gsb")) else {
        return "oracle FAIL .gsb not readable".to_string();
    };
    let g = match Ntv2Grid::new(&bytes) {
        Ok(g) => g,
        Err(e) => return format!("oracle FAIL shipped .gsb rejected ({})", err_class(&e)),
    };
    // parse the ASCII rendering
    struct A {
        name: String,
        parent: String,
        h: BTreeMap<String, f64>,
        nodes: Vec<(f64, f64)>,
    }
    let mut subs: Vec<A> = vec![];
    for line in text.lines() {
        let w: Vec<&str> = line.split_whitespace().collect();
        if w.is_empty() {
            continue;
        }
        if w[0] == "SUB_NAME" {
            subs.push(A { name: w[1].to_string(), parent: String::new(), h: BTreeMap::new(), nodes: vec![] });
            continue;
        }
        let Some(cur) = subs.last_mut() else { continue };
        if w[0] == "PARENT" && w.len() == 2 {
            cur.parent = w[1].to_string();
            continue;
        }
        if w.len() == 2 {
            if let Ok(v) = w[1].parse::<f64>() {
                cur.h.insert(w[0].to_string(), v);
            }
        } else if w.len() == 4 {
            cur.nodes.push((w[0].parse().unwrap_or(f64::NAN), w[1].parse().unwrap_or(f64::NAN)));
        }
    }
    if subs.is_empty() {
        return "oracle FAIL no sub-grids in the .gsa twin".to_string();
    }
    let sec = std::f64::consts::PI / 180.0 / 3600.0;
    let boxes: Vec<(String, f64, f64, f64, f64)> = subs.iter().map(|a| (a.name.clone(), a.h["S_LAT"], a.h["N_LAT"], a.h["E_LONG"], a.h["W_LONG"])).collect();
    let mut checked = 0;
    for a in &subs {
        let (s_lat, e_long, dlat, dlon) = (a.h["S_LAT"], a.h["E_LONG"], a.h["LAT_INC"], a.h["LONG_INC"]);
        let cols = ((a.h["W_LONG"] - e_long) / dlon).round() as usize + 1;
        let rows = ((a.h["N_LAT"] - s_lat) / dlat).round() as usize + 1;
        if rows * cols != a.nodes.len() || a.h["GS_COUNT"] as usize != a.nodes.len() {
            return format!("oracle FAIL .gsa twin of {} inconsistent", a.name);
        }
        for (k, (dlat_sec, dlon_sec)) in a.nodes.iter().enumerate() {
            let (i, j) = (k / cols, k % cols);
            let lat = s_lat + i as f64 * dlat;
            let lonw = e_long + j as f64 * dlon;
            // this sub-grid governs the node unless another sub-grid touches it, or the node sits on
            // this sub-grid's own upper borders (which belong to the parent)
            let other = boxes.iter().any(|b| b.0 != a.name && lat >= b.1 && lat <= b.2 && lonw >= b.3 && lonw <= b.4);
            let is_child = a.parent != "NONE";
            let upper = (lat - a.h["N_LAT"]).abs() < 1e-9 || (lonw - e_long).abs() < 1e-9;
            if (other && !is_child) || (is_child && upper) {
                continue;
            }
            let Some(v) = g.at(&Coor4D([-lonw * sec, lat * sec, 0., 0.]), 1e-9) else {
                return format!("oracle FAIL node {k} of {} in the .gsa twin is outside the decoded .gsb", a.name);
            };
            let want = [-(dlon_sec * sec), dlat_sec * sec];
            for b in 0..2 {
                if !((v[b] - want[b]).abs() <= 1e-6 * want[b].abs() + 1e-12) {
                    return format!("oracle FAIL node {k} of sub-grid {}: band {b} decodes to {} but the ASCII twin says {}", a.name, v[b], want[b]);
                }
            }
            checked += 1;
        }
    }
    if checked < 20 {
        return format!("oracle FAIL only {checked} nodes of the .gsa twin could be compared");
    }
    "oracle pass".to_string()
}

/// any definition, any coordinates, both directions: a handle or an error, then a count — no
/// panic (caught by the worker), no hang (timed by the supervisor)
fn oracle_c09(fields: &[&str]) -> String {
    let Some((spec, rest)) = crate::exec::parse_ctx(fields) else {
        return "bad-case".to_string();
    };
    if rest.len() != 2 {
        return "bad-case".to_string();
    }
    let def = unescape(rest[0]);
    let data = parse_data(rest[1]);
    crate::exec::with_ctx(&spec, |ctx| {
        let op = match ctx.op(&def) {
            Ok(op) => op,
            Err(e) => return format!("oracle pass err {}", err_class(&e)),
        };
        let n = data.len();
        let mut chain = data.clone();
        for fwd in [true, false, false, true] {
            let dir = || if fwd { Fwd } else { Inv };
            let mut d = data.clone();
            match ctx.apply(op, dir(), &mut d) {
                Ok(k) if k > n => return format!("oracle FAIL {k} successes reported for {n} tuples"),
                _ => {}
            }
            if d.len() != n {
                return "oracle FAIL the operand set changed length".to_string();
            }
            // ... and on what the previous call left behind
            let _ = ctx.apply(op, dir(), &mut chain);
        }
        // the other container types go through the same code with other element accessors
        let mut d2: Vec<Coor2D> = data.iter().map(|c| Coor2D([c[0], c[1]])).collect();
        let _ = ctx.apply(op, Fwd, &mut d2);
        let mut d32: Vec<Coor32> = data.iter().map(|c| Coor32([c[0] as f32, c[1] as f32])).collect();
        let _ = ctx.apply(op, Inv, &mut d32);
        let mut empty: Vec<Coor4D> = vec![];
        match ctx.apply(op, Fwd, &mut empty) {
            Ok(0) | Err(_) => {}
            Ok(k) => return format!("oracle FAIL {k} successes reported for an empty operand set"),
        }
        "oracle pass ok".to_string()
    })
}

/// the public functions of the ellipsoid module on any shape and any arguments
fn oracle_c09e(fields: &[&str]) -> String {
    let a = parse_f(fields[0]);
    let f = parse_f(fields[1]);
    let x: Vec<f64> = fields[2].split(',').map(parse_f).collect();
    let e = Ellipsoid::new(a, f);
    let mut acc = 0u64;
    let mut eat = |v: f64| acc = acc.wrapping_add(v.to_bits());
    eat(e.semimajor_axis());
    eat(e.semiminor_axis());
    eat(e.semimedian_axis());
    eat(e.flattening());
    eat(e.second_flattening());
    eat(e.third_flattening());
    eat(e.aspect_ratio());
    eat(e.linear_eccentricity());
    eat(e.eccentricity());
    eat(e.eccentricity_squared());
    eat(e.second_eccentricity());
    eat(e.second_eccentricity_squared());
    eat(e.polar_radius_of_curvature());
    eat(e.normalized_meridian_arc_unit());
    eat(e.rectifying_radius());
    eat(e.rectifying_radius_bowring());
    eat(e.meridian_quadrant());
    let rect = e.coefficients_for_rectifying_latitude_computations();
    let conf = e.coefficients_for_conformal_latitude_computations();
    let auth = e.coefficients_for_authalic_latitude_computations();
    for &v in &x {
        eat(e.prime_vertical_radius_of_curvature(v));
        eat(e.meridian_radius_of_curvature(v));
        eat(e.meridian_latitude_to_distance(v));
        eat(e.meridian_distance_to_latitude(v));
        eat(e.latitude_geographic_to_geocentric(v));
        eat(e.latitude_geocentric_to_geographic(v));
        eat(e.latitude_geographic_to_reduced(v));
        eat(e.latitude_reduced_to_geographic(v));
        eat(e.latitude_geographic_to_isometric(v));
        eat(e.latitude_isometric_to_geographic(v));
        eat(e.latitude_geographic_to_rectifying(v, &rect));
        eat(e.latitude_rectifying_to_geographic(v, &rect));
        eat(e.latitude_geographic_to_conformal(v, &conf));
        eat(e.latitude_conformal_to_geographic(v, &conf));
        eat(e.latitude_geographic_to_authalic(v, &auth));
        eat(e.latitude_authalic_to_geographic(v, &auth));
        eat(e.somigliana_gravity(v, None, None));
        eat(e.somigliana_gravity(v, Some(x[0]), Some(x[1])));
        eat(e.cassinis_gravity_1930(v));
        eat(e.jeffreys_gravity_1948(v));
        eat(e.grs67_gravity(v));
        eat(e.grs80_gravity(v));
        eat(e.cassinis_height_correction(v, x[1]));
        eat(e.grs67_height_correction(v, x[2]));
        eat(e.welmec(v, x[3]));
    }
    let p = Coor4D([x[0], x[1], x[2], x[3]]);
    let q = Coor4D([x[2], x[3], x[4], x[5]]);
    for c in [e.cartesian(&p), e.geographic(&p), e.geographic(&e.cartesian(&p)), e.geodesic_fwd(&p, x[4], x[5]), e.geodesic_inv(&p, &q), e.geodesic_inv(&p, &p)] {
        for i in 0..4 {
            eat(c[i]);
        }
    }
    eat(e.distance(&p, &q));
    format!("oracle pass {:x}", acc & 0xf)
}

/// `Ellipsoid::named` on any text
fn oracle_c09n(fields: &[&str]) -> String {
    let name = unescape(fields[0]);
    // the triaxial type reads the same texts, and tuples of two or three numbers
    if let Ok(t) = geodesy::ellps::TriaxialEllipsoid::named(&name) {
        let _ = (t.semimajor_axis(), t.semimedian_axis(), t.semiminor_axis(), t.flattening(), t.eccentricity_squared(), t.third_flattening());
    }
    match Ellipsoid::named(&name) {
        Ok(e) => {
            // a named ellipsoid is then used without further ado
            let _ = e.cartesian(&Coor4D([0.2, 0.9, 10., 0.]));
            let _ = e.meridian_latitude_to_distance(0.9);
            "oracle pass ok".to_string()
        }
        Err(_) => "oracle pass err".to_string(),
    }
}

fn run_def(def: &str, fwd: bool, data: &[Coor4D]) -> Result<(usize, Vec<Coor4D>), String> {
    let mut ctx = Minimal::default();
    let op = ctx.op(def).map_err(|e| format!("{def} not instantiable ({})", err_class(&e)))?;
    let mut d = data.to_vec();
    let n = ctx.apply(op, if fwd { Fwd } else { Inv }, &mut d).map_err(|e| format!("{def} apply failed ({})", err_class(&e)))?;
    Ok((n, d))
}

fn same_bits(a: &Coor4D, b: &Coor4D) -> bool {
    (0..4).all(|i| a[i].to_bits() == b[i].to_bits() || (a[i].is_nan() && b[i].is_nan()))
}

/// two differently parameterised instances of the same projection
fn oracle_c13(fields: &[&str]) -> String {
    let kind = fields[0];
    let a = unescape(fields[1]);
    let b = unescape(fields[2]);
    let extra: Vec<f64> = if fields[3].is_empty() { vec![] } else { fields[3].split(',').map(parse_f).collect() };
    let pts = parse_data(fields[4]);
    let run = |def: &str, fwd: bool, data: &[Coor4D]| run_def(def, fwd, data);
    macro_rules! tryrun {
        ($e:expr) => {
            match $e {
                Ok(v) => v,
                Err(m) => return format!("oracle FAIL {m}"),
            }
        };
    }
    let close = |x: f64, y: f64, rel: f64, abs: f64| (x.is_nan() && y.is_nan()) || (x - y).abs() <= abs + rel * x.abs().max(y.abs());
    if kind == "noop" {
        for fwd in [true, false] {
            let (n, out) = tryrun!(run(&a, fwd, &pts));
            if n != pts.len() || out.iter().zip(pts.iter()).any(|(x, y)| !same_bits(x, y)) {
                return format!("oracle FAIL {a}: the data came back changed or the count is {n} for {} tuples", pts.len());
            }
        }
        return "oracle pass".to_string();
    }
    // a parameter the operator does not declare: either it is ignored (the rule for unknown keys) or, if a later
    // version accepts it, it follows the convention
    if kind == "lon0opt" {
        let (_, fa) = tryrun!(run(&a, true, &pts));
        let (_, fb) = tryrun!(run(&b, true, &pts));
        let shifted: Vec<Coor4D> = pts.iter().map(|p| Coor4D([p[0] - extra[0].to_radians(), p[1], p[2], p[3]])).collect();
        let (_, fs) = tryrun!(run(&b, true, &shifted));
        for i in 0..pts.len() {
            let ignored = same_bits(&fa[i], &fb[i]);
            let conventional = close(fa[i][0], fs[i][0], 4e-15, 1e-8) && close(fa[i][1], fs[i][1], 4e-15, 1e-8);
            if !ignored && !conventional {
                return format!("oracle FAIL {a} at ({}, {}) gives ({}, {}): neither what {b} gives there ({}, {}) nor what it gives {} degrees further west ({}, {})", pts[i][0], pts[i][1], fa[i][0], fa[i][1], fb[i][0], fb[i][1], extra[0], fs[i][0], fs[i][1]);
            }
        }
        return "oracle pass".to_string();
    }
    // the points handed to B, and what B's output must be turned into to equal A's
    let mut pts_b = pts.clone();
    if kind == "lon0" {
        for p in pts_b.iter_mut() {
            p[0] -= extra[0].to_radians();
        }
    }
    let (na, fa) = tryrun!(run(&a, true, &pts));
    let (nb, fb) = tryrun!(run(&b, true, &pts_b));
    // the points are points of the domain: two instances that both project nothing agree on nothing
    for (i, p) in pts.iter().enumerate() {
        if p[0].is_finite() && p[1].is_finite() && (fa[i][0].is_nan() || fa[i][1].is_nan()) && (fb[i][0].is_nan() || fb[i][1].is_nan()) {
            return format!("oracle FAIL neither {a} nor {b} projects the point ({}, {}) of the domain", p[0], p[1]);
        }
    }
    if na != nb {
        return format!("oracle FAIL {a} counts {na}, {b} counts {nb}");
    }
    let k = match kind {
        "k0" | "size" => extra[0],
        "lat_ts" => {
            let ellps = a.split("ellps=").nth(1).unwrap_or("GRS80").split(' ').next().unwrap_or("GRS80");
            let es = Ellipsoid::named(ellps).map(|e| e.eccentricity_squared()).unwrap_or(0.0);
            let (s, c) = extra[0].to_radians().sin_cos();
            c / (1.0 - es * s * s).sqrt()
        }
        _ => 1.0,
    };
    let (ox, oy) = match kind {
        "origin" => (extra[0], extra[1]),
        _ => (0.0, 0.0),
    };
    // fixed false origin of the derived operators, for "size"
    let (fx, fy) = if kind == "size" && extra[1] == 1.0 { (extra[2], extra[3]) } else { (0.0, 0.0) };
    for (i, (x, y)) in fa.iter().zip(fb.iter()).enumerate() {
        if kind == "same" {
            if !same_bits(x, y) {
                return format!("oracle FAIL tuple {i}: {a} gives ({}, {}), {b} gives ({}, {})", x[0], x[1], y[0], y[1]);
            }
            continue;
        }
        let want = [(y[0] - fx) * k + fx + ox, (y[1] - fy) * k + fy + oy];
        for j in 0..2 {
            // the magnitudes that went through the arithmetic (a false northing of 1e7 m costs 2e-9 m per operation)
            let scale = want[j].abs().max(y[j].abs()).max(if j == 0 { fx.abs().max(ox.abs()) } else { fy.abs().max(oy.abs()) }).max(1.0) * 4.0;
            // (rounding: the operands reach 1e7 m inside the oblique projections, and a longitude of 3.5 rad
            // shifted by the oracle itself is good to 4e-16 rad, a few nanometres on the ground: 10 nm)
            let (rel, abs) = if kind == "close" { (1e-9, 1e-6) } else { (4e-15, 1e-8 * (scale / 1e6).max(1.0)) };
            if !close(x[j], want[j], rel, abs) {
                return format!("oracle FAIL [{kind}] tuple {i} element {j}: {a} gives {}, expected {} from {b}", x[j], want[j]);
            }
        }
        if x[2].to_bits() != pts[i][2].to_bits() || x[3].to_bits() != pts[i][3].to_bits() {
            return format!("oracle FAIL {a}: height or time changed by a plane projection");
        }
    }
    // the inverse: A undoes its own forward result; B undoes the correspondingly changed one
    let (nia, ia) = tryrun!(run(&a, false, &fa));
    let back_b: Vec<Coor4D> = fa.iter().map(|x| Coor4D([(x[0] - ox - fx) / k + fx, (x[1] - oy - fy) / k + fy, x[2], x[3]])).collect();
    let (nib, ib) = tryrun!(run(&b, false, &back_b));
    if nia != nib {
        return format!("oracle FAIL inverse: {a} counts {nia}, {b} counts {nib}");
    }
    for (i, (x, y)) in ia.iter().zip(ib.iter()).enumerate() {
        if kind == "same" {
            if !same_bits(x, y) {
                return format!("oracle FAIL inverse tuple {i}: {a} gives ({}, {}), {b} gives ({}, {})", x[0], x[1], y[0], y[1]);
            }
            continue;
        }
        let shift = if kind == "lon0" { extra[0].to_radians() } else { 0.0 };
        // (a longitude comes back as an equivalent angle: tmerc and others normalise theirs to [-pi, pi])
        let turn = std::f64::consts::TAU;
        let dl = (x[0] - (y[0] + shift)).rem_euclid(turn);
        // (at a pole the longitude means nothing: whatever comes back there is as good as anything else)
        let at_pole = (x[1].abs() - std::f64::consts::FRAC_PI_2).abs() <= 1e-9 && (y[1].abs() - std::f64::consts::FRAC_PI_2).abs() <= 1e-9;
        let lon_ok = at_pole || if kind == "lon0" { dl.min(turn - dl) <= 2e-11 || (x[0].is_nan() && y[0].is_nan()) } else { close(x[0], y[0] + shift, 0.0, 2e-11) };
        if !lon_ok || !close(x[1], y[1], 0.0, 2e-11) {
            return format!("oracle FAIL [{kind}] inverse tuple {i}: {a} gives ({}, {}), {b} gives ({}, {})", x[0], x[1], y[0] + shift, y[1]);
        }
    }
    "oracle pass".to_string()
}

fn run_kind(kind: &str, def: &str, fwd: bool, data: &[Coor4D]) -> Result<(usize, Vec<Coor4D>), String> {
    let spec = crate::exec::CtxSpec { kind: kind.to_string(), resources: vec![], users: vec![] };
    crate::exec::with_ctx(&spec, |ctx| {
        let op = ctx.op(def).map_err(|e| format!("{def} not instantiable ({})", err_class(&e)))?;
        let mut d = data.to_vec();
        let n = ctx.apply(op, if fwd { Fwd } else { Inv }, &mut d).map_err(|e| format!("{def} apply failed ({})", err_class(&e)))?;
        Ok((n, d))
    })
}

/// honest counts, NaN for failed tuples, untouched axes, NaN propagation — tuple by tuple
fn oracle_c10(fields: &[&str]) -> String {
    let kind = fields[0];
    let def = unescape(fields[1]);
    let fwd = fields[2] == "F";
    let worked: Vec<usize> = fields[3].chars().filter_map(|c| c.to_digit(10)).map(|d| d as usize).collect();
    let kept: Vec<usize> = fields[4].chars().filter_map(|c| c.to_digit(10)).map(|d| d as usize).collect();
    let pts = parse_data(fields[5]);
    let classes: Vec<char> = fields[6].chars().collect();
    macro_rules! tryrun {
        ($e:expr) => {
            match $e {
                Ok(v) => v,
                Err(m) => return format!("oracle FAIL {m}"),
            }
        };
    }
    let (nall, all) = tryrun!(run_kind(kind, &def, fwd, &pts));
    if all.len() != pts.len() || nall > pts.len() {
        return format!("oracle FAIL {def}: {nall} successes / {} tuples returned for {} tuples", all.len(), pts.len());
    }
    let mut sum = 0;
    for (i, p) in pts.iter().enumerate() {
        let (n, out) = tryrun!(run_kind(kind, &def, fwd, &[*p]));
        if n > 1 {
            return format!("oracle FAIL {def}: {n} successes reported for one tuple");
        }
        sum += n;
        let o = out[0];
        if !same_bits(&o, &all[i]) {
            // (a helmert with rates carries state between tuples with equal times only)
            return format!("oracle FAIL {def}: tuple {i} alone gives ({}, {}, {}, {}), in the set ({}, {}, {}, {})", o[0], o[1], o[2], o[3], all[i][0], all[i][1], all[i][2], all[i][3]);
        }
        let clean_in = (0..4).all(|j| p[j].is_finite());
        let worked_finite = worked.iter().all(|&j| o[j].is_finite());
        let worked_nan = worked.iter().any(|&j| o[j].is_nan());
        let dir = if fwd { "forward" } else { "inverse" };
        if clean_in && n == 0 && worked_finite {
            return format!("oracle FAIL {def} {dir}: tuple ({}, {}, {}, {}) is not counted but comes back looking valid ({}, {}, {}, {})", p[0], p[1], p[2], p[3], o[0], o[1], o[2], o[3]);
        }
        if n == 0 && p.0.iter().all(|v| !v.is_nan()) && (0..4).all(|j| !o[j].is_nan()) {
            return format!("oracle FAIL {def} {dir}: tuple ({}, {}, {}, {}) is not counted but carries no NaN: ({}, {}, {}, {})", p[0], p[1], p[2], p[3], o[0], o[1], o[2], o[3]);
        }
        if clean_in && n == 1 && worked_nan {
            return format!("oracle FAIL {def} {dir}: tuple ({}, {}, {}, {}) is counted as a success but carries NaN", p[0], p[1], p[2], p[3]);
        }
        match classes.get(i) {
            Some('i') if n != 1 || !worked_finite => {
                return format!("oracle FAIL {def} {dir}: tuple ({}, {}, {}, {}) inside the domain is not transformed and counted (count {n}, result ({}, {}))", p[0], p[1], p[2], p[3], o[0], o[1]);
            }
            Some('o') if n != 0 || !worked_nan => {
                return format!("oracle FAIL {def} {dir}: tuple ({}, {}, {}, {}) outside the domain must be NaN and not counted (count {n}, result ({}, {}, {}))", p[0], p[1], p[2], p[3], o[0], o[1], o[2]);
            }
            // 'v': whatever is counted must be right — the other direction takes it back to where
            // it came from (first two elements, 1e-6 of their unit: 6 m in radians, 0.1 m in degrees)
            // (forward with the null grid is exempt: a point of the margin band may be shifted out of the
            // coverage, where the inverse rightly passes it unchanged)
            Some('v') if n == 1 && !(fwd && def.contains("@null")) => {
                if let Ok((1, back)) = run_kind(kind, &def, !fwd, &[o]) {
                    // (an uncounted way back gives no verdict: the result may lie beyond the other direction's domain)
                    let scale = p[0].abs().max(p[1].abs()).max(1.0);
                    let wrap = |d: f64| d.abs().min((d.abs() - 360.0).abs()).min((d.abs() - std::f64::consts::TAU).abs());
                    if !(wrap(back[0][0] - p[0]) < 1e-6 * scale && wrap(back[0][1] - p[1]) < 1e-6 * scale) {
                        return format!("oracle FAIL {def} {dir}: tuple ({}, {}, {}, {}) is counted as a success, but its result ({}, {}, {}, {}) goes back to ({}, {}) in the other direction", p[0], p[1], p[2], p[3], o[0], o[1], o[2], o[3], back[0][0], back[0][1]);
                    }
                }
            }
            Some('u') if n != 1 || !same_bits(&o, p) => {
                return format!("oracle FAIL {def} {dir}: tuple ({}, {}) outside all grids must pass unchanged with the null grid (count {n})", p[0], p[1]);
            }
            _ => {}
        }
        if n == 1 {
            for &j in &kept {
                // (an infinite height or time is beyond what the property quantifies over: the iteration of
                // gridshift's inverse turns it into NaN through inf - inf)
                if o[j].to_bits() != p[j].to_bits() && !(o[j].is_nan() && p[j].is_nan()) && !p[j].is_infinite() {
                    return format!("oracle FAIL {def} {dir}: element {j} is not worked on but came back changed ({} -> {})", p[j], o[j]);
                }
            }
        }
        // dependencies, by perturbation of a clean tuple; then NaN in an input element must show in
        // every output element that depends on it
        // (with the null grid a NaN position lies outside every grid and passes unchanged, by that rule)
        if clean_in && n == 1 && classes.get(i) == Some(&'i') && !def.contains("@null") {
            for j in 0..4 {
                let mut q = *p;
                q[j] = if q[j] == 0.0 { 1e-3 } else { q[j] * (1.0 + 1e-4) + 1e-7 };
                let (nq, oq) = tryrun!(run_kind(kind, &def, fwd, &[q]));
                if nq != 1 {
                    continue;
                }
                let deps: Vec<usize> = (0..4).filter(|&k| oq[0][k].to_bits() != o[k].to_bits() && oq[0][k].is_finite()).collect();
                let mut z = *p;
                z[j] = f64::NAN;
                let (_, oz) = tryrun!(run_kind(kind, &def, fwd, &[z]));
                for &k in &deps {
                    if !oz[0][k].is_nan() {
                        return format!("oracle FAIL {def} {dir}: output element {k} depends on input element {j}, but with NaN there it comes back as {}", oz[0][k]);
                    }
                }
            }
        }
    }
    if sum != nall {
        return format!("oracle FAIL {def}: {nall} successes for the set, {sum} for its tuples one by one");
    }
    "oracle pass".to_string()
}

/// a pipeline reports the minimum over its steps
fn oracle_c10p(fields: &[&str]) -> String {
    let a = unescape(fields[0]);
    let b = unescape(fields[1]);
    let pts = parse_data(fields[2]);
    for fwd in [true, false] {
        let (first, second) = if fwd { (&a, &b) } else { (&b, &a) };
        let Ok((n1, d1)) = run_kind("plain", first, fwd, &pts) else { return "oracle FAIL step not instantiable".to_string() };
        let Ok((n2, d2)) = run_kind("plain", second, fwd, &d1) else { return "oracle FAIL step not instantiable".to_string() };
        let Ok((n, d)) = run_kind("plain", &format!("{a} | {b}"), fwd, &pts) else { return "oracle FAIL pipeline not instantiable".to_string() };
        if n != n1.min(n2) {
            return format!("oracle FAIL {a} | {b} ({}): the steps count {n1} and {n2}, the pipeline {n}", if fwd { "forward" } else { "inverse" });
        }
        if d.iter().zip(d2.iter()).any(|(x, y)| !same_bits(x, y)) {
            return format!("oracle FAIL {a} | {b}: the pipeline's data differ from the steps applied one after the other");
        }
    }
    "oracle pass".to_string()
}

/// the unsupported inverse of a one-way operator
fn oracle_c10w(fields: &[&str]) -> String {
    let def = unescape(fields[0]);
    let pts = parse_data(fields[1]);
    match run_kind("plain", &def, false, &pts) {
        Ok((n, d)) => {
            if n != 0 || d.iter().zip(pts.iter()).any(|(x, y)| !same_bits(x, y)) {
                return format!("oracle FAIL {def}: the unsupported inverse reports {n} successes or changed the data");
            }
            // ... also as a step of a pipeline run backwards
            match run_kind("plain", &format!("noop | {def}"), false, &pts) {
                Ok((n, d)) if n != 0 || d.iter().zip(pts.iter()).any(|(x, y)| !same_bits(x, y)) => format!("oracle FAIL noop | {def} backwards: {n} successes or changed data"),
                _ => "oracle pass".to_string(),
            }
        }
        Err(m) => format!("oracle FAIL {m}"),
    }
}

/// distance on the ground between two operands of the given kind
/// the larger of two numbers, NaN if either is (`f64::max` drops a NaN operand: a result that is not a number
/// must not pass for a distance of zero)
fn nmax(a: f64, b: f64) -> f64 {
    if a.is_nan() || b.is_nan() {
        f64::NAN
    } else {
        a.max(b)
    }
}

fn ground_distance(space: &str, a: &Coor4D, b: &Coor4D) -> f64 {
    let r = 6.4e6;
    match space {
        "geo" | "geo3" => {
            let dlat = (a[1] - b[1]).abs() * r;
            let mut dl = (a[0] - b[0]).abs() % std::f64::consts::TAU;
            if dl > std::f64::consts::PI {
                dl = std::f64::consts::TAU - dl;
            }
            // (the radius of the parallel: at a pole the longitude means nothing)
            let dlon = dl * r * a[1].cos().abs().min(1.0);
            let dh = if space == "geo3" { (a[2] - b[2]).abs() } else { 0.0 };
            nmax(nmax(dlat, dlon), dh)
        }
        "deg" => {
            let dlat = (a[0] - b[0]).abs().to_radians() * r;
            let mut dl = (a[1] - b[1]).abs() % 360.0;
            if dl > 180.0 {
                dl = 360.0 - dl;
            }
            nmax(nmax(dlat, dl.to_radians() * r * a[0].to_radians().cos().abs()), (a[2] - b[2]).abs())
        }
        "geodesic" => {
            // (lat, lon, azimuth, distance) in degrees and metres
            let dlat = (a[0] - b[0]).abs().to_radians() * r;
            let dlon = (a[1] - b[1]).abs().to_radians() * r * a[0].to_radians().cos().abs();
            let mut da = (a[2] - b[2]).abs() % 360.0;
            if da > 180.0 {
                da = 360.0 - da;
            }
            nmax(nmax(nmax(dlat, dlon), da.to_radians() * a[3].abs().min(r)), (a[3] - b[3]).abs())
        }
        _ => (0..3).map(|i| (a[i] - b[i]).abs()).fold(0.0, nmax),
    }
}

/// forward then inverse (or inverse then forward) returns the original
fn oracle_c01(fields: &[&str]) -> String {
    let kind = fields[0];
    let def = unescape(fields[1]);
    let first_fwd = fields[2] == "F";
    let space = fields[3];
    let tol: f64 = fields[4].parse().unwrap_or(0.0);
    let pts = parse_data(fields[5]);
    let (n1, mid) = match run_kind(kind, &def, first_fwd, &pts) {
        Ok(v) => v,
        Err(m) => return format!("oracle FAIL {m}"),
    };
    let (n2, back) = match run_kind(kind, &def, !first_fwd, &mid) {
        Ok(v) => v,
        Err(m) => return format!("oracle FAIL {m}"),
    };
    if n1 != pts.len() || n2 != pts.len() {
        return format!("oracle FAIL {def}: {} tuples of the domain, {n1} transformed {} and {n2} back", pts.len(), if first_fwd { "forward" } else { "inverse" });
    }
    for (i, (p, q)) in pts.iter().zip(back.iter()).enumerate() {
        if space == "exact" {
            // permutations, sign changes: bit for bit; unit changes and translations: to the last place
            for j in 0..4 {
                let ok = p[j].to_bits() == q[j].to_bits() || (p[j] - q[j]).abs() <= 4.0 * f64::EPSILON * p[j].abs().max(1.0);
                if !ok {
                    return format!("oracle FAIL {def} {}: element {j} of tuple {i} comes back as {} instead of {}", if first_fwd { "forward then inverse" } else { "inverse then forward" }, q[j], p[j]);
                }
            }
            continue;
        }
        let d = ground_distance(space, p, q);
        if !(d <= tol) {
            return format!(
                "oracle FAIL {def} {}: ({}, {}, {}) comes back as ({}, {}, {}), {:.3e} m away (allowed {:.1e})",
                if first_fwd { "forward then inverse" } else { "inverse then forward" }, p[0], p[1], p[2], q[0], q[1], q[2], d, tol
            );
        }
        if p[3].to_bits() != q[3].to_bits() && space != "geodesic" && !((p[3] - q[3]).abs() <= 1e-9) && !(p[3].is_nan() && q[3].is_nan()) {
            return format!("oracle FAIL {def}: the time element came back changed ({} -> {})", p[3], q[3]);
        }
    }
    "oracle pass".to_string()
}

/// deformation works on cartesian coordinates: geographic -> cartesian, forward, inverse, compare
fn oracle_c01d(fields: &[&str]) -> String {
    let def = unescape(fields[0]);
    let pts = parse_data(fields[1]);
    let cart: Vec<Coor4D> = pts.iter().map(|p| Ellipsoid::default().cartesian(p)).collect();
    for first_fwd in [true, false] {
        let Ok((n1, mid)) = run_kind("plain", &def, first_fwd, &cart) else { return format!("oracle FAIL {def} not instantiable") };
        let Ok((n2, back)) = run_kind("plain", &def, !first_fwd, &mid) else { return format!("oracle FAIL {def} not instantiable") };
        if n1 != cart.len() || n2 != cart.len() {
            return format!("oracle FAIL {def}: inside the coverage but {n1} / {n2} of {} transformed", cart.len());
        }
        for (p, q) in cart.iter().zip(back.iter()) {
            let d = (0..3).map(|i| (p[i] - q[i]).abs()).fold(0.0, nmax);
            if !(d <= 5e-6) {
                return format!("oracle FAIL {def}: ({}, {}, {}) comes back {:.3e} m away", p[0], p[1], p[2], d);
            }
        }
        if mid.iter().zip(cart.iter()).all(|(a, b)| same_bits(a, b)) {
            return format!("oracle FAIL {def}: the deformation moved nothing inside the coverage");
        }
    }
    "oracle pass".to_string()
}

fn ulps_apart(a: f64, b: f64) -> u64 {
    if a.is_nan() && b.is_nan() {
        return 0;
    }
    let k = |x: f64| -> i64 {
        let i = x.to_bits() as i64;
        if i < 0 { i64::MIN - i } else { i }
    };
    (k(a) as i128 - k(b) as i128).unsigned_abs().min(u64::MAX as u128) as u64
}

/// Simpson quadrature of the meridian arc element `a (1 - e^2) / (1 - e^2 sin^2 phi)^(3/2)`
fn meridian_arc_quadrature(a: f64, es: f64, lat: f64) -> f64 {
    let n = 20000;
    let h = lat / n as f64;
    let f = |p: f64| a * (1.0 - es) / (1.0 - es * p.sin() * p.sin()).powf(1.5);
    let mut s = f(0.0) + f(lat);
    for i in 1..n {
        s += f(i as f64 * h) * if i % 2 == 1 { 4.0 } else { 2.0 };
    }
    s * h / 3.0
}

/// two routes to the same quantity
fn oracle_c14(fields: &[&str]) -> String {
    let kind = fields[0];
    let pts = parse_data(fields[3]);
    macro_rules! tryrun {
        ($e:expr) => {
            match $e {
                Ok(v) => v,
                Err(m) => return format!("oracle FAIL {m}"),
            }
        };
    }
    match kind {
        "tm" => {
            let (a, b) = (unescape(fields[1]), unescape(fields[2]));
            let (na, fa) = tryrun!(run_kind("default", &a, true, &pts));
            let (nb, fb) = tryrun!(run_kind("default", &b, true, &pts));
            if na != pts.len() || nb != pts.len() {
                return format!("oracle FAIL {a} / {b}: {na} / {nb} of {} transformed", pts.len());
            }
            for (i, (x, y)) in fa.iter().zip(fb.iter()).enumerate() {
                let d = (x[0] - y[0]).hypot(x[1] - y[1]);
                if !(d < 1e-3) {
                    return format!("oracle FAIL forward at ({}, {}): {a} gives ({}, {}), {b} gives ({}, {}), {:.3e} m apart", pts[i][0], pts[i][1], x[0], x[1], y[0], y[1], d);
                }
            }
            let (_, ia) = tryrun!(run_kind("default", &a, false, &fa));
            let (_, ib) = tryrun!(run_kind("default", &b, false, &fa));
            for (x, y) in ia.iter().zip(ib.iter()) {
                let d = ground_distance("geo", x, y);
                if !(d < 1e-3) {
                    return format!("oracle FAIL inverse: {a} gives ({}, {}), {b} gives ({}, {}), {:.3e} m apart", x[0], x[1], y[0], y[1], d);
                }
            }
        }
        "same" => {
            let (a, b) = (unescape(fields[1]), unescape(fields[2]));
            for fwd in [true, false] {
                let (na, fa) = tryrun!(run_kind("default", &a, fwd, &pts));
                let (nb, fb) = tryrun!(run_kind("default", &b, fwd, &pts));
                if na != nb {
                    return format!("oracle FAIL {a} counts {na}, {b} counts {nb}");
                }
                for (x, y) in fa.iter().zip(fb.iter()) {
                    for j in 0..4 {
                        // the same mapping: the same value (a sign change or an exchange is exact; a unit
                        // factor may be spelled pi/180 or 0.0174..., one unit in the last place apart)
                        if x[j].to_bits() != y[j].to_bits() && !(x[j] == 0.0 && y[j] == 0.0) && ulps_apart(x[j], y[j]) > 1 {
                            return format!("oracle FAIL {} element {j}: {a} gives {}, {b} gives {}", if fwd { "forward" } else { "inverse" }, x[j], y[j]);
                        }
                    }
                }
            }
        }
        "ctx" => {
            let def = unescape(fields[1]);
            let m = run_kind("default", &def, true, &pts);
            let p = run_kind("plain", &def, true, &pts);
            match (m, p) {
                (Ok((n1, d1)), Ok((n2, d2))) => {
                    if n1 != n2 || d1.iter().zip(d2.iter()).any(|(x, y)| !same_bits(x, y)) {
                        return format!("oracle FAIL {def}: Minimal and Plain differ");
                    }
                    let mi = run_kind("default", &def, false, &d1);
                    let pi = run_kind("plain", &def, false, &d1);
                    if let (Ok((n1, e1)), Ok((n2, e2))) = (mi, pi) {
                        if n1 != n2 || e1.iter().zip(e2.iter()).any(|(x, y)| !same_bits(x, y)) {
                            return format!("oracle FAIL {def} inverse: Minimal and Plain differ");
                        }
                    }
                }
                (Err(_), Err(_)) => {}
                _ => return format!("oracle FAIL {def}: instantiable in one of Minimal / Plain only"),
            }
        }
        _ => {
            let Ok(e) = Ellipsoid::named(fields[1]) else { return "oracle FAIL ellipsoid".to_string() };
            let sub = fields[2];
            match kind {
                "cart" => {
                    let (_, f) = tryrun!(run_kind("default", &format!("cart ellps={}", fields[1]), true, &pts));
                    for (p, x) in pts.iter().zip(f.iter()) {
                        let c = e.cartesian(p);
                        if (0..3).any(|j| c[j].to_bits() != x[j].to_bits()) {
                            return format!("oracle FAIL cart forward differs from Ellipsoid::cartesian at ({}, {}, {})", p[0], p[1], p[2]);
                        }
                    }
                    let (_, i) = tryrun!(run_kind("default", &format!("cart ellps={}", fields[1]), false, &f));
                    for (x, y) in f.iter().zip(i.iter()) {
                        let gq = e.geographic(x);
                        let d = ground_distance("geo3", &gq, y);
                        if !(d < 1e-3) {
                            return format!("oracle FAIL cart inverse and Ellipsoid::geographic are {:.3e} m apart at ({}, {}, {})", d, x[0], x[1], x[2]);
                        }
                    }
                    // cartesian points on the rotation axis (not reachable from geographic input: cos(pi/2) is not 0):
                    // both routes, and the height |Z| - b
                    let b = e.semiminor_axis();
                    let axis: Vec<Coor4D> = [b - 5000.0, -(b - 5000.0), b + 1.0e4, -(b + 1.0e5), b].iter().map(|z| Coor4D([0.0, 0.0, *z, 2000.0])).collect();
                    let (_, i) = tryrun!(run_kind("default", &format!("cart ellps={}", fields[1]), false, &axis));
                    for (x, y) in axis.iter().zip(i.iter()) {
                        let gq = e.geographic(x);
                        let want = x[2].abs() - b;
                        if !((gq[2] - want).abs() < 1e-6) || !((y[2] - want).abs() < 1e-3) || !((gq[1].abs() - std::f64::consts::FRAC_PI_2).abs() < 1e-9) {
                            return format!("oracle FAIL on the rotation axis at Z = {}: Ellipsoid::geographic gives latitude {} height {}, cart inverse height {}, expected height {}", x[2], gq[1], gq[2], y[2], want);
                        }
                    }
                }
                "lat" => {
                    let def = format!("latitude {sub} ellps={}", fields[1]);
                    let (_, f) = tryrun!(run_kind("default", &def, true, &pts));
                    let (_, i) = tryrun!(run_kind("default", &def, false, &pts));
                    let rect = e.coefficients_for_rectifying_latitude_computations();
                    let conf = e.coefficients_for_conformal_latitude_computations();
                    let auth = e.coefficients_for_authalic_latitude_computations();
                    for (k, p) in pts.iter().enumerate() {
                        let (wf, wi) = match sub {
                            "geocentric" => (e.latitude_geographic_to_geocentric(p[1]), e.latitude_geocentric_to_geographic(p[1])),
                            "reduced" | "parametric" => (e.latitude_geographic_to_reduced(p[1]), e.latitude_reduced_to_geographic(p[1])),
                            "conformal" => (e.latitude_geographic_to_conformal(p[1], &conf), e.latitude_conformal_to_geographic(p[1], &conf)),
                            "rectifying" => (e.latitude_geographic_to_rectifying(p[1], &rect), e.latitude_rectifying_to_geographic(p[1], &rect)),
                            _ => (e.latitude_geographic_to_authalic(p[1], &auth), e.latitude_authalic_to_geographic(p[1], &auth)),
                        };
                        if ulps_apart(f[k][1], wf) > 2 || ulps_apart(i[k][1], wi) > 2 {
                            return format!("oracle FAIL {def} at {}: operator gives {} / {}, the ellipsoid's methods {} / {}", p[1], f[k][1], i[k][1], wf, wi);
                        }
                    }
                }
                "curv" => {
                    let def = format!("curvature {sub} ellps={}", fields[1]);
                    let (_, f) = tryrun!(run_kind("default", &def, true, &pts));
                    for (k, p) in pts.iter().enumerate() {
                        let lat = p[0].to_radians();
                        let (m, n) = (e.meridian_radius_of_curvature(lat), e.prime_vertical_radius_of_curvature(lat));
                        let want = match sub {
                            "prime" => n,
                            "meridian" => m,
                            "gaussian" => (n * m).sqrt(),
                            "mean" => 2.0 / (1.0 / n + 1.0 / m),
                            _ => {
                                let (s, c) = p[1].to_radians().sin_cos();
                                1.0 / (c * c / m + s * s / n)
                            }
                        };
                        if !((f[k][0] - want).abs() <= 1e-13 * want.abs()) {
                            return format!("oracle FAIL {def} at latitude {} (azimuth {}): operator gives {}, the ellipsoid's radii give {}", p[0], p[1], f[k][0], want);
                        }
                    }
                }
                "grav" => {
                    // ("default": no formula named, which is documented to mean grs80)
                    let def = if sub == "default" { format!("gravity ellps={}", fields[1]) } else { format!("gravity {sub} ellps={}", fields[1]) };
                    let sub = if sub == "default" { "grs80" } else { sub };
                    let (_, f) = tryrun!(run_kind("default", &def, true, &pts));
                    for (k, p) in pts.iter().enumerate() {
                        let lat = p[0].to_radians();
                        let want = match sub {
                            "cassinis" => e.cassinis_gravity_1930(lat) - e.cassinis_height_correction(p[1], 2800.0),
                            "jeffreys" => e.jeffreys_gravity_1948(lat) - e.cassinis_height_correction(p[1], 2800.0),
                            "grs67" => e.grs67_gravity(lat) - e.grs67_height_correction(lat, p[1]),
                            "grs80" => e.grs80_gravity(lat) - e.grs67_height_correction(lat, p[1]),
                            _ => e.welmec(lat, p[1]),
                        };
                        // the height correction conventions of the operator are its own: agreement on the
                        // zero-height value is what both routes share
                        let _ = want;
                        // (one tuple on its own and the same tuple among others: the same bits)
                        let (_, alone) = tryrun!(run_kind("default", &def, true, &[*p]));
                        if alone[0][0].to_bits() != f[k][0].to_bits() {
                            return format!("oracle FAIL {def} at latitude {} height {}: {} among other tuples, {} on its own", p[0], p[1], f[k][0], alone[0][0]);
                        }
                        let (_, z) = tryrun!(run_kind("default", &format!("{def} zero-height"), true, &[*p]));
                        let want0 = match sub {
                            "cassinis" => e.cassinis_gravity_1930(lat),
                            "jeffreys" => e.jeffreys_gravity_1948(lat),
                            "grs67" => e.grs67_gravity(lat),
                            "grs80" => e.grs80_gravity(lat),
                            _ => e.welmec(lat, 0.0),
                        };
                        if ulps_apart(z[0][0], want0) > 2 {
                            return format!("oracle FAIL {def} zero-height at latitude {}: operator gives {}, the ellipsoid's method {}", p[0], z[0][0], want0);
                        }
                        let _ = f[k];
                    }
                }
                "geod" => {
                    let fwd = sub == "F";
                    let def = format!("geodesic ellps={}", fields[1]);
                    let (_, f) = tryrun!(run_kind("default", &def, fwd, &pts));
                    for (k, p) in pts.iter().enumerate() {
                        if fwd {
                            let d = e.geodesic_fwd(&Coor4D([p[1].to_radians(), p[0].to_radians(), 0., 0.]), p[2].to_radians(), p[3]);
                            if d[3] > 990.0 {
                                continue;
                            }
                            if ulps_apart(f[k][0], d[1].to_degrees()) > 2 || ulps_apart(f[k][1], d[0].to_degrees()) > 2 {
                                return format!("oracle FAIL {def} forward: operator gives ({}, {}), Ellipsoid::geodesic_fwd ({}, {})", f[k][0], f[k][1], d[1].to_degrees(), d[0].to_degrees());
                            }
                        } else {
                            let d = e.geodesic_inv(&Coor4D([p[1].to_radians(), p[0].to_radians(), 0., 0.]), &Coor4D([p[3].to_radians(), p[2].to_radians(), 0., 0.]));
                            if d[3] > 990.0 {
                                continue;
                            }
                            if ulps_apart(f[k][0], d[0].to_degrees()) > 2 || ulps_apart(f[k][2], d[2]) > 2 {
                                return format!("oracle FAIL {def} inverse: operator gives azimuth {} distance {}, Ellipsoid::geodesic_inv {} and {}", f[k][0], f[k][2], d[0].to_degrees(), d[2]);
                            }
                        }
                    }
                }
                _ => {
                    // series against closed forms and quadrature
                    let es = e.eccentricity_squared();
                    let ecc = es.sqrt();
                    let a = e.semimajor_axis();
                    let conf = e.coefficients_for_conformal_latitude_computations();
                    let auth = e.coefficients_for_authalic_latitude_computations();
                    let rect = e.coefficients_for_rectifying_latitude_computations();
                    let q = |s: f64| if ecc < 1e-9 { 2.0 * s } else { (1.0 - es) * (s / (1.0 - es * s * s) - (0.5 / ecc) * ((1.0 - ecc * s) / (1.0 + ecc * s)).ln()) };
                    let quadrant = meridian_arc_quadrature(a, es, std::f64::consts::FRAC_PI_2);
                    if sub == "arc" {
                        // the poles themselves: a quadrant, north positive, south negative
                        for s in [1.0, -1.0] {
                            let d = e.meridian_latitude_to_distance(s * std::f64::consts::FRAC_PI_2);
                            if !((d - s * quadrant).abs() < 1e-6 * (a / 6.4e6).max(1e-9)) {
                                return format!("oracle FAIL meridian arc to the {} pole on {}: {d}, quadrature {}", if s > 0.0 { "north" } else { "south" }, fields[1], s * quadrant);
                            }
                        }
                    }
                    for p in &pts {
                        let lat = p[1].clamp(-1.5, 1.5);
                        let chi = (lat.tan().asinh() - ecc * (ecc * lat.sin()).atanh()).sinh().atan();
                        let got = e.latitude_geographic_to_conformal(lat, &conf);
                        if !((got - chi).abs() < 1e-11) {
                            return format!("oracle FAIL conformal latitude of {lat} on {}: series {got}, closed form {chi}", fields[1]);
                        }
                        let xi = (q(lat.sin()) / q(1.0)).asin();
                        let got = e.latitude_geographic_to_authalic(lat, &auth);
                        if !((got - xi).abs() < 1e-11) {
                            return format!("oracle FAIL authalic latitude of {lat} on {}: series {got}, closed form {xi}", fields[1]);
                        }
                        let arc = meridian_arc_quadrature(a, es, lat);
                        if sub == "rectifying" {
                            let mu = arc / quadrant * std::f64::consts::FRAC_PI_2;
                            let got = e.latitude_geographic_to_rectifying(lat, &rect);
                            if !((got - mu).abs() < 1e-11) {
                                return format!("oracle FAIL rectifying latitude of {lat} on {}: series {got}, quadrature {mu} (ratio {:.9})", fields[1], got / mu);
                            }
                            continue;
                        }
                        if sub == "arc" {
                            let d = e.meridian_latitude_to_distance(lat);
                            if !((d - arc).abs() < 1e-6 * (a / 6.4e6).max(1e-9)) {
                                return format!("oracle FAIL meridian arc to {lat} on {}: {d}, quadrature {arc}, {:.1e} m apart", fields[1], (d - arc).abs() * 6.4e6 / a);
                            }
                            let back = e.meridian_distance_to_latitude(arc);
                            if !((back - lat).abs() < 1e-11) {
                                return format!("oracle FAIL latitude from the meridian arc {arc} on {}: {back}, expected {lat}, {:.1e} rad apart", fields[1], (back - lat).abs());
                            }
                            continue;
                        }
                    }
                }
            }
        }
    }
    "oracle pass".to_string()
}

/// the ellipsoid's own geometry, through the public API
fn oracle_c06(fields: &[&str]) -> String {
    let kind = fields[0];
    if kind == "count" {
        let n: usize = fields[1].parse().unwrap_or(0);
        return if n == 47 { "oracle pass".to_string() } else { format!("oracle FAIL the built-in ellipsoid table has {n} rows, 47 are documented") };
    }
    let Ok(e) = Ellipsoid::named(fields[1]) else {
        return format!("oracle FAIL ellipsoid {} cannot be instantiated", fields[1]);
    };
    let (a, f) = (e.semimajor_axis(), e.flattening());
    let b = e.semiminor_axis();
    let es = e.eccentricity_squared();
    match kind {
        "table" => {
            // the published numbers (PROJ's ellipsoid table), held here independently of the source
            let Some(row) = PUBLISHED_ELLIPSOIDS.iter().find(|r| r.0 == fields[1]) else {
                return format!("oracle FAIL {} is not among the published ellipsoids", fields[1]);
            };
            if a != row.1 || (row.2 != 0.0 && f != 1.0 / row.2) || (row.2 == 0.0 && f != 0.0) {
                return format!("oracle FAIL {}: a = {a}, f = {f}, published a = {}, rf = {}", fields[1], row.1, row.2);
            }
            // the triaxial type reads the same table: the same axes (the median axis equal to the major one) and
            // the same flattening, zero for the spheres
            match geodesy::ellps::TriaxialEllipsoid::named(fields[1]) {
                Err(_) => return format!("oracle FAIL {} cannot be instantiated as a triaxial ellipsoid", fields[1]),
                Ok(t) => {
                    if t.semimajor_axis().to_bits() != a.to_bits() || t.flattening().to_bits() != f.to_bits() || t.semimedian_axis().to_bits() != a.to_bits() {
                        return format!("oracle FAIL {} as a triaxial ellipsoid: a = {}, ay = {}, f = {}; the biaxial one has a = {a}, f = {f}", fields[1], t.semimajor_axis(), t.semimedian_axis(), t.flattening());
                    }
                    if !(t.semiminor_axis() - b).abs().le(&(1e-9 * a)) {
                        return format!("oracle FAIL {} as a triaxial ellipsoid: semi-minor axis {}, the biaxial one has {b}", fields[1], t.semiminor_axis());
                    }
                }
            }
            let pa: f64 = fields[2].parse().unwrap_or(f64::NAN);
            let prf: f64 = fields[3].parse().unwrap_or(f64::NAN);
            if a.to_bits() != pa.to_bits() {
                return format!("oracle FAIL {}: semi-major axis {a}, the table publishes {pa}", fields[1]);
            }
            let want_f = if prf != 0.0 { 1.0 / prf } else { 0.0 };
            if f.to_bits() != want_f.to_bits() {
                return format!("oracle FAIL {}: flattening {f}, the table publishes 1/{prf}", fields[1]);
            }
            let close = |x: f64, y: f64| (x - y).abs() <= 1e-13 * x.abs().max(y.abs()).max(1e-300);
            let checks = [
                ("b = a(1-f)", b, a * (1.0 - f)),
                ("e^2 = f(2-f)", es, f * (2.0 - f)),
                ("e^2 = 1 - b^2/a^2", es, 1.0 - b * b / (a * a)),
                ("e = sqrt(e^2)", e.eccentricity(), es.sqrt()),
                ("e'^2 = e^2/(1-e^2)", e.second_eccentricity_squared(), es / (1.0 - es)),
                ("e'^2 = (a^2-b^2)/b^2", e.second_eccentricity_squared(), (a * a - b * b) / (b * b)),
                ("e' = sqrt(e'^2)", e.second_eccentricity(), (es / (1.0 - es)).sqrt()),
                ("e' = e a/b", e.second_eccentricity() * b, e.eccentricity() * a),
                ("rectifying radius", e.rectifying_radius(), e.meridian_quadrant() / std::f64::consts::FRAC_PI_2),
                ("n = (a-b)/(a+b)", e.third_flattening(), (a - b) / (a + b)),
                ("f' = (a-b)/b", e.second_flattening(), (a - b) / b),
                ("a/b", e.aspect_ratio(), a / b),
                ("E^2 = a^2 - b^2", e.linear_eccentricity().powi(2), a * a - b * b),
                ("c = a^2/b", e.polar_radius_of_curvature(), a * a / b),
                ("M(90) = N(90) = c", e.meridian_radius_of_curvature(std::f64::consts::FRAC_PI_2), e.prime_vertical_radius_of_curvature(std::f64::consts::FRAC_PI_2)),
                ("N(0) = a", e.prime_vertical_radius_of_curvature(0.0), a),
                ("M(0) = a(1-e^2)", e.meridian_radius_of_curvature(0.0), a * (1.0 - es)),
                ("quadrant", e.meridian_quadrant(), e.meridian_latitude_to_distance(std::f64::consts::FRAC_PI_2)),
            ];
            for (what, x, y) in checks {
                let tol_ok = if what.starts_with("e'^2 = (a") || what.starts_with("E^2") || what.starts_with("e^2 = 1") { (x - y).abs() <= 1e-9 * x.abs().max(y.abs()).max(1e-300) + 1e-16 } else { close(x, y) };
                if !tol_ok {
                    return format!("oracle FAIL {}: {what} does not hold ({x} vs {y})", fields[1]);
                }
            }
        }
        "cart" => {
            for mut p in parse_data(fields[2]) {
                p[2] *= a / 6378137.0; // heights in proportion to the size of the body
                let c = e.cartesian(&p);
                let g = e.geographic(&c);
                // single step closed form: 1 cm
                let d = ground_distance("geo3", &Coor4D([p[0], p[1], p[2], 0.]), &g) * (a / 6378137.0).min(1.0);
                // (a pole is the pole itself; a point millimetres from it is a point with a longitude)
                let polar = (p[1].abs() - std::f64::consts::FRAC_PI_2).abs() < 1e-14;
                if (!(d < 1e-2) && !polar) || (polar && !((g[1] - p[1]).abs() < 1e-9 && (g[2] - p[2]).abs() < 1e-2)) {
                    return format!("oracle FAIL {}: ({}, {}, {}) -> cartesian -> geographic comes back {:.3e} m away", fields[1], p[0], p[1], p[2], d);
                }
                // height zero: on the ellipsoid
                let z = e.cartesian(&Coor4D([p[0], p[1], 0., 0.]));
                let q = (z[0] * z[0] + z[1] * z[1]) / (a * a) + z[2] * z[2] / (b * b);
                if !((q - 1.0).abs() < 1e-14) {
                    return format!("oracle FAIL {}: the point of height zero at ({}, {}) misses the ellipsoid equation by {:e}", fields[1], p[0], p[1], q - 1.0);
                }
                // the cart operator: 1 micrometre
                let def = format!("cart ellps={}", fields[1]);
                if let (Ok((_, c2)), true) = (run_kind("default", &def, true, &[p]), true) {
                    if let Ok((_, g2)) = run_kind("default", &def, false, &c2) {
                        let d2 = ground_distance("geo3", &p, &g2[0]);
                        if !(d2 < 1e-6) && !polar {
                            return format!("oracle FAIL {def}: ({}, {}, {}) comes back {:.3e} m away", p[0], p[1], p[2], d2);
                        }
                        // at a pole the longitude is arbitrary, latitude and height are not
                        if polar && !((g2[0][1] - p[1]).abs() < 1e-9 && (g2[0][2] - p[2]).abs() < 1e-6) {
                            return format!("oracle FAIL {def}: the pole ({}, {}, {}) comes back as ({}, {}, {})", p[0], p[1], p[2], g2[0][0], g2[0][1], g2[0][2]);
                        }
                    }
                }
            }
        }
        "lat" => {
            let rect = e.coefficients_for_rectifying_latitude_computations();
            let conf = e.coefficients_for_conformal_latitude_computations();
            let auth = e.coefficients_for_authalic_latitude_computations();
            type F<'a> = Box<dyn Fn(f64) -> f64 + 'a>;
            let kinds: Vec<(&str, F, F)> = vec![
                ("geocentric", Box::new(|x| e.latitude_geographic_to_geocentric(x)), Box::new(|x| e.latitude_geocentric_to_geographic(x))),
                ("reduced", Box::new(|x| e.latitude_geographic_to_reduced(x)), Box::new(|x| e.latitude_reduced_to_geographic(x))),
                ("conformal", Box::new(|x| e.latitude_geographic_to_conformal(x, &conf)), Box::new(|x| e.latitude_conformal_to_geographic(x, &conf))),
                ("authalic", Box::new(|x| e.latitude_geographic_to_authalic(x, &auth)), Box::new(|x| e.latitude_authalic_to_geographic(x, &auth))),
                ("rectifying", Box::new(|x| e.latitude_geographic_to_rectifying(x, &rect)), Box::new(|x| e.latitude_rectifying_to_geographic(x, &rect))),
            ];
            let ecc = es.sqrt();
            let hp = std::f64::consts::FRAC_PI_2;
            for (name, fw, bw) in &kinds {
                if fw(0.0) != 0.0 {
                    return format!("oracle FAIL {name} latitude of the equator is {} on {}", fw(0.0), fields[1]);
                }
                if *name != "rectifying" && !((fw(hp) - hp).abs() < 1e-12) {
                    return format!("oracle FAIL {name} latitude of the pole is {} on {}", fw(hp), fields[1]);
                }
                // ... of either pole, in either direction; and odd there too
                if *name != "rectifying" && (!((fw(-hp) + hp).abs() < 1e-12) || !((bw(hp) - hp).abs() < 1e-12) || !((bw(-hp) + hp).abs() < 1e-12)) {
                    return format!("oracle FAIL {name} latitude: the south pole maps to {}, the poles map back to {} and {} on {}", fw(-hp), bw(hp), bw(-hp), fields[1]);
                }
                if !((fw(-hp) + fw(hp)).abs() < 1e-15) {
                    return format!("oracle FAIL {name} latitude is not odd at the poles on {}: {} and {}", fields[1], fw(hp), fw(-hp));
                }
                for p in parse_data(fields[2]) {
                    let (x, y) = (p[0].min(p[1]), p[0].max(p[1]));
                    if !((fw(-x) + fw(x)).abs() < 1e-15) {
                        return format!("oracle FAIL {name} latitude is not odd at {x} on {}", fields[1]);
                    }
                    if y - x > 1e-9 && !(fw(x) < fw(y)) {
                        return format!("oracle FAIL {name} latitude is not increasing between {x} and {y} on {}", fields[1]);
                    }
                    if !((bw(fw(x)) - x).abs() < 1e-12) {
                        return format!("oracle FAIL {name} latitude of {x} on {} comes back as {}", fields[1], bw(fw(x)));
                    }
                    let closed = match *name {
                        "geocentric" => ((1.0 - es) * x.tan()).atan(),
                        "reduced" => ((1.0 - f) * x.tan()).atan(),
                        "conformal" => (x.tan().asinh() - ecc * (ecc * x.sin()).atanh()).sinh().atan(),
                        "authalic" => {
                            let q = |s: f64| if ecc < 1e-9 { 2.0 * s } else { (1.0 - es) * (s / (1.0 - es * s * s) - (0.5 / ecc) * ((1.0 - ecc * s) / (1.0 + ecc * s)).ln()) };
                            (q(x.sin()) / q(1.0)).asin()
                        }
                        _ => continue,
                    };
                    if !((fw(x) - closed).abs() < 1e-11) {
                        return format!("oracle FAIL {name} latitude of {x} on {}: {} but the closed form gives {closed}", fields[1], fw(x));
                    }
                }
            }
            // the isometric latitude (unbounded at the poles): odd, fixing the equator in both directions, increasing,
            // coming back, and psi = asinh(tan phi) - e atanh(e sin phi)
            {
                let fw = |x: f64| e.latitude_geographic_to_isometric(x);
                let bw = |x: f64| e.latitude_isometric_to_geographic(x);
                if fw(0.0) != 0.0 || bw(0.0) != 0.0 || bw(-0.0) != 0.0 {
                    return format!("oracle FAIL isometric latitude: the equator maps to {} and back to {} on {}", fw(0.0), bw(0.0), fields[1]);
                }
                for p in parse_data(fields[2]) {
                    let (x, y) = (p[0].min(p[1]).min(1.5), p[0].max(p[1]).min(1.55));
                    if !((fw(-x) + fw(x)).abs() < 1e-14) || !((bw(-x) + bw(x)).abs() < 1e-15) {
                        return format!("oracle FAIL isometric latitude is not odd at {x} on {}", fields[1]);
                    }
                    if y - x > 1e-9 && !(fw(x) < fw(y)) {
                        return format!("oracle FAIL isometric latitude is not increasing between {x} and {y} on {}", fields[1]);
                    }
                    if !((bw(fw(x)) - x).abs() < 1e-12) {
                        return format!("oracle FAIL isometric latitude of {x} on {} comes back as {}", fields[1], bw(fw(x)));
                    }
                    let closed = x.tan().asinh() - ecc * (ecc * x.sin()).atanh();
                    if !((fw(x) - closed).abs() < 1e-11 * closed.abs().max(1.0)) {
                        return format!("oracle FAIL isometric latitude of {x} on {}: {} but the closed form gives {closed}", fields[1], fw(x));
                    }
                }
            }
            // the latitude operator: both directions against the methods above
            for (name, fw, bw) in &kinds {
                let def = format!("latitude {name} ellps={}", fields[1]);
                let pts: Vec<Coor4D> = parse_data(fields[2]).iter().map(|p| Coor4D([0.1, p[0].min(1.5), 0., 0.])).collect();
                if let (Ok((_, f)), Ok((_, i))) = (run_kind("default", &def, true, &pts), run_kind("default", &def, false, &pts)) {
                    for (k, p) in pts.iter().enumerate() {
                        if !((f[k][1] - fw(p[1])).abs() < 1e-14) || !((i[k][1] - bw(p[1])).abs() < 1e-14) {
                            return format!("oracle FAIL {def} at {}: operator gives {} / {}, the ellipsoid's methods {} / {}", p[1], f[k][1], i[k][1], fw(p[1]), bw(p[1]));
                        }
                    }
                }
            }
            // the meridian arc to either pole, and back (the quadrant, with the sign of the pole)
            for pole in [hp, -hp] {
                let d = e.meridian_latitude_to_distance(pole);
                let back = e.meridian_distance_to_latitude(d);
                if !((back - pole).abs() < 1e-9) || !(d * pole > 0.0) {
                    return format!("oracle FAIL meridian distance {d} of the pole {pole} on {} comes back as latitude {back}", fields[1]);
                }
            }
            // isometric latitude and meridian arcs
            for p in parse_data(fields[2]) {
                let x = p[0];
                let psi = e.latitude_geographic_to_isometric(x);
                let closed = x.tan().asinh() - ecc * (ecc * x.sin()).atanh();
                if !((psi - closed).abs() < 1e-12 * closed.abs().max(1.0)) || !((e.latitude_isometric_to_geographic(psi) - x).abs() < 1e-12) {
                    return format!("oracle FAIL isometric latitude of {x} on {}: {psi} (closed form {closed}), back {}", fields[1], e.latitude_isometric_to_geographic(psi));
                }
                let d = e.meridian_latitude_to_distance(x);
                // (compact formulas: 5e-11 rad on GRS80 by the library's own tests, growing with the flattening)
                if !((e.meridian_distance_to_latitude(d) - x).abs() < 1e-9) {
                    return format!("oracle FAIL meridian distance {d} of latitude {x} on {} comes back as {}", fields[1], e.meridian_distance_to_latitude(d));
                }
                // the meridian distance is odd, zero on the equator, increasing, and inverted on the southern hemisphere too
                let y = p[1].min(1.5);
                let dm = e.meridian_latitude_to_distance(-x);
                if !((dm + d).abs() <= 1e-9 * d.abs().max(1.0)) {
                    return format!("oracle FAIL meridian distance is not odd on {}: {d} at {x} but {dm} at {}", fields[1], -x);
                }
                if !((e.meridian_distance_to_latitude(dm) + x).abs() < 1e-9) {
                    return format!("oracle FAIL meridian distance {dm} of latitude {} on {} comes back as {}", -x, fields[1], e.meridian_distance_to_latitude(dm));
                }
                if (y - x).abs() > 1e-9 && !((e.meridian_latitude_to_distance(y) - d) * (y - x) > 0.0) {
                    return format!("oracle FAIL meridian distance is not increasing between {x} and {y} on {}", fields[1]);
                }
            }
            // ... at the equator and at both poles
            {
                let hp = std::f64::consts::FRAC_PI_2;
                let (dn, ds, d0) = (e.meridian_latitude_to_distance(hp), e.meridian_latitude_to_distance(-hp), e.meridian_latitude_to_distance(0.0));
                if !(d0 == 0.0) || !(dn > 0.0) || !((dn + ds).abs() <= 1e-9 * dn) {
                    return format!("oracle FAIL meridian distance on {}: {d0} at the equator, {dn} at the North Pole, {ds} at the South Pole", fields[1]);
                }
                let near = e.meridian_latitude_to_distance(-hp + 1e-7);
                if !(near > ds && near - ds < 1.0 * a / 6.0e6) {
                    return format!("oracle FAIL meridian distance on {} jumps at the South Pole: {ds} at the pole, {near} at 1e-7 rad from it", fields[1]);
                }
                let nearn = e.meridian_latitude_to_distance(hp - 1e-7);
                if !(nearn < dn && dn - nearn < 1.0 * a / 6.0e6) {
                    return format!("oracle FAIL meridian distance on {} jumps at the North Pole: {dn} at the pole, {nearn} at 1e-7 rad from it", fields[1]);
                }
            }
        }
        "rectpole" => {
            // (kept apart from the other latitude checks: see the known finding)
            let rect = e.coefficients_for_rectifying_latitude_computations();
            let hp = std::f64::consts::FRAC_PI_2;
            let got = e.latitude_geographic_to_rectifying(hp, &rect);
            if !((got - hp).abs() < 1e-12) {
                return format!("oracle FAIL rectifying latitude of the pole is {got} on {} (ratio {:.9})", fields[1], got / hp);
            }
        }
        "geod" => {
            for mut p in parse_data(fields[2]) {
                p[3] *= a / 6378137.0; // distances in proportion to the size of the body
                // direct then inverse: the same azimuth and distance
                let from = Coor4D([p[0], p[1], 0., 0.]);
                let dest = e.geodesic_fwd(&from, p[2], p[3]);
                if dest[3] > 990.0 {
                    continue;
                }
                let to = Coor4D([dest[0], dest[1], 0., 0.]);
                let inv = e.geodesic_inv(&from, &to);
                if inv[3] > 990.0 || inv[2].is_nan() {
                    // the documented near-antipodal non-convergence zone
                    if p[3] > 1.9e7 * a / 6.4e6 * 0.97 {
                        continue;
                    }
                    return format!("oracle FAIL {}: the inverse problem does not converge for a line of {} m from ({}, {})", fields[1], p[3], p[0], p[1]);
                }
                if !((inv[2] - p[3]).abs() < 1e-4) {
                    return format!("oracle FAIL {}: direct with distance {} from ({}, {}) azimuth {}, inverse finds {}", fields[1], p[3], p[0], p[1], p[2], inv[2]);
                }
                let da = (inv[0] - p[2]).rem_euclid(std::f64::consts::TAU);
                if !(da.min(std::f64::consts::TAU - da) * p[3].min(a) < 1e-3) {
                    return format!("oracle FAIL {}: direct with azimuth {} from ({}, {}) over {} m, inverse finds azimuth {}", fields[1], p[2], p[0], p[1], p[3], inv[0]);
                }
                // the azimuth at the destination: the direct problem's third result is the inverse problem's second
                let dd = (dest[2] - inv[1]).rem_euclid(std::f64::consts::TAU);
                if !(dd.min(std::f64::consts::TAU - dd) * p[3].min(a) < 1e-3) {
                    return format!("oracle FAIL {}: azimuth at the destination is {} from the direct problem but {} from the inverse ({} m from ({}, {}) azimuth {})", fields[1], dest[2], inv[1], p[3], p[0], p[1], p[2]);
                }
                // symmetry in the end points
                let back = e.geodesic_inv(&to, &from);
                if !((back[2] - inv[2]).abs() < 1e-5) {
                    return format!("oracle FAIL {}: distance {} one way and {} the other", fields[1], inv[2], back[2]);
                }
                let db = (back[0] - inv[1] - std::f64::consts::PI).rem_euclid(std::f64::consts::TAU);
                if !(db.min(std::f64::consts::TAU - db) * p[3].min(a) < 1e-3) {
                    return format!("oracle FAIL {}: forward azimuth of the return line {} is not the return azimuth {} turned half round", fields[1], back[0], inv[1]);
                }
                if !((e.distance(&from, &to) - inv[2]).abs() < 1e-9) {
                    return format!("oracle FAIL {}: distance() and geodesic_inv disagree", fields[1]);
                }
                // the operator (degrees: latitude, longitude of both ends in; azimuth, azimuth at the destination, distance,
                // return azimuth out): the return azimuth of the line is the forward azimuth of the line walked back
                let def = format!("geodesic ellps={}", fields[1]);
                let there = Coor4D([from[1].to_degrees(), from[0].to_degrees(), to[1].to_degrees(), to[0].to_degrees()]);
                let back_again = Coor4D([to[1].to_degrees(), to[0].to_degrees(), from[1].to_degrees(), from[0].to_degrees()]);
                if let Ok((2, r)) = run_kind("default", &def, false, &[there, back_again]) {
                    let dr = (r[0][3] - r[1][0]).rem_euclid(360.0);
                    if !(dr.min(360.0 - dr).to_radians() * p[3].min(a) < 1e-3) {
                        return format!("oracle FAIL {def}: the return azimuth {} of the line from ({}, {}) to ({}, {}) is not the forward azimuth {} of the line back", r[0][3], there[0], there[1], there[2], there[3], r[1][0]);
                    }
                    if !((r[0][2] - r[1][2]).abs() < 1e-5) {
                        return format!("oracle FAIL {def}: {} m one way, {} m the other", r[0][2], r[1][2]);
                    }
                }
            }
        }
        "great" => {
            for p in parse_data(fields[2]) {
                let from = Coor4D([p[0], p[1], 0., 0.]);
                let to = Coor4D([p[2], p[3], 0., 0.]);
                let d = e.geodesic_inv(&from, &to)[2];
                let c = (p[1].sin() * p[3].sin() + p[1].cos() * p[3].cos() * (p[2] - p[0]).cos()).clamp(-1.0, 1.0).acos();
                if !((d - a * c).abs() < 1e-8 * a) {
                    return format!("oracle FAIL {}: geodesic {d}, great circle {}", fields[1], a * c);
                }
            }
        }
        _ => {
            // special lines: across the antimeridian (against the shifted pair), meridians, equator
            for p in parse_data(fields[2]) {
                let from = Coor4D([p[0], p[1], 0., 0.]);
                let to = Coor4D([p[2], p[3], 0., 0.]);
                let inv = e.geodesic_inv(&from, &to);
                if inv[2].is_nan() || inv[3] > 990.0 {
                    return format!("oracle FAIL {}: no solution for the line ({}, {}) - ({}, {})", fields[1], p[0], p[1], p[2], p[3]);
                }
                // rotating both end points about the axis changes nothing
                let s = 0.7;
                let inv2 = e.geodesic_inv(&Coor4D([angular::normalize_symmetric(p[0] + s), p[1], 0., 0.]), &Coor4D([angular::normalize_symmetric(p[2] + s), p[3], 0., 0.]));
                if !((inv[2] - inv2[2]).abs() < 1e-4) {
                    return format!("oracle FAIL {}: line ({}, {}) - ({}, {}) is {} m long, {} m after turning both end points by {s} rad of longitude", fields[1], p[0], p[1], p[2], p[3], inv[2], inv2[2]);
                }
                if p[0] == p[2] {
                    let m = (e.meridian_latitude_to_distance(p[3]) - e.meridian_latitude_to_distance(p[1])).abs();
                    if !((inv[2] - m).abs() < 1e-3) {
                        return format!("oracle FAIL {}: along the meridian the geodesic is {} m, the meridian arc {}", fields[1], inv[2], m);
                    }
                }
                if p[1] == 0.0 && p[3] == 0.0 {
                    let mut dl = (p[2] - p[0]).abs();
                    if dl > std::f64::consts::PI {
                        dl = std::f64::consts::TAU - dl;
                    }
                    if !((inv[2] - a * dl).abs() < 1e-4) {
                        return format!("oracle FAIL {}: along the equator the geodesic is {} m, the equatorial arc {}", fields[1], inv[2], a * dl);
                    }
                }
            }
        }
    }
    "oracle pass".to_string()
}

/// the geometry that defines a projection, by fourth order finite differences of the forward
/// function, normalised by the meridian and parallel radii computed here
fn oracle_c05(fields: &[&str]) -> String {
    let kind = fields[0];
    let def = unescape(fields[1]);
    let extra: Vec<f64> = if fields[2].is_empty() { vec![] } else { fields[2].split(',').map(parse_f).collect() };
    let pts = parse_data(fields[3]);
    let ellps_name = def.split("ellps=").nth(1).map(|x| x.split(' ').next().unwrap_or("GRS80")).unwrap_or(if def.starts_with("webmerc") { "WGS84" } else { "GRS80" });
    let Ok(e) = Ellipsoid::named(ellps_name) else { return format!("oracle FAIL ellipsoid of {def}") };
    let (a, es) = (e.semimajor_axis(), e.eccentricity_squared());
    let mut ctx = Minimal::default();
    let op = match ctx.op(&def) {
        Ok(op) => op,
        Err(err) => return format!("oracle FAIL {def} not instantiable ({})", err_class(&err)),
    };
    let mut f = |lon: f64, lat: f64| -> Option<(f64, f64)> {
        let mut d = [Coor4D([lon, lat, 0., 0.])];
        match ctx.apply(op, Fwd, &mut d) {
            Ok(1) if d[0][0].is_finite() && d[0][1].is_finite() => Some((d[0][0], d[0][1])),
            _ => None,
        }
    };
    if kind == "origin" {
        let p = pts[0];
        let Some((x, y)) = f(p[0], p[1]) else { return format!("oracle FAIL {def}: the projection centre cannot be projected") };
        let tol = 2e-6;
        if !((x - extra[0]).abs() < tol && (y - extra[1]).abs() < tol) {
            return format!("oracle FAIL {def}: the projection centre ({}, {}) maps to ({x}, {y}), not to the false origin ({}, {})", p[0], p[1], extra[0], extra[1]);
        }
        // ... and the false origin maps (back) to the projection centre
        let mut back = [Coor4D([extra[0], extra[1], 0.0, 0.0])];
        let n = ctx.apply(op, Inv, &mut back).unwrap_or(0);
        let (lon, lat) = (back[0][0], back[0][1]);
        let at_pole = (p[1].abs() - std::f64::consts::FRAC_PI_2).abs() < 1e-9;
        let dlon = if at_pole { 0.0 } else { ((lon - p[0]) / std::f64::consts::TAU - ((lon - p[0]) / std::f64::consts::TAU).round()) * std::f64::consts::TAU };
        if n != 1 || !(dlon.abs() < 1e-9) || !((lat - p[1]).abs() < 1e-9) {
            return format!("oracle FAIL {def}: the false origin ({}, {}) maps back to ({lon}, {lat}) ({n} counted), not to the projection centre ({}, {})", extra[0], extra[1], p[0], p[1]);
        }
        return "oracle pass".to_string();
    }
    if kind == "tmerc-meridian" {
        let (k0, lat0, x0, y0) = (extra[0], extra[1].to_radians(), extra[2], extra[3]);
        for p in &pts {
            let Some((x, y)) = f(p[0], p[1]) else { return format!("oracle FAIL {def}: a point of the central meridian cannot be projected") };
            let arc = meridian_arc_quadrature(a, es, p[1]) - meridian_arc_quadrature(a, es, lat0);
            if !((x - x0).abs() < 1e-6) || !((y - (y0 + k0 * arc)).abs() < 2e-6) {
                return format!("oracle FAIL {def}: on the central meridian at latitude {} the easting is {x} (false easting {x0}) and the northing {y}, the scaled meridian arc from lat_0 gives {}", p[1], y0 + k0 * arc);
            }
        }
    }
    let h = 1e-4;
    for p in &pts {
        let (lon, lat) = (p[0], p[1].clamp(-1.5, 1.5));
        // a projection that maps nothing has no geometry to speak of: the points are points of the domain
        if lon.is_finite() && lat.is_finite() && f(lon, lat).is_none() {
            return format!("oracle FAIL {def}: the point ({lon}, {lat}) of the domain cannot be projected");
        }
        let mut grab = |dlon: f64, dlat: f64| f(lon + dlon, lat + dlat);
        let (Some(a1), Some(a2), Some(a3), Some(a4)) = (grab(-2.0 * h, 0.0), grab(-h, 0.0), grab(h, 0.0), grab(2.0 * h, 0.0)) else { continue };
        let (Some(b1), Some(b2), Some(b3), Some(b4)) = (grab(0.0, -2.0 * h), grab(0.0, -h), grab(0.0, h), grab(0.0, 2.0 * h)) else { continue };
        let d = |m2: f64, m1: f64, p1: f64, p2: f64| (m2 - 8.0 * m1 + 8.0 * p1 - p2) / (12.0 * h);
        let (xl, yl) = (d(a1.0, a2.0, a3.0, a4.0), d(a1.1, a2.1, a3.1, a4.1));
        let (xp, yp) = (d(b1.0, b2.0, b3.0, b4.0), d(b1.1, b2.1, b3.1, b4.1));
        // (webmerc is DEFINED on the sphere of radius a, whatever the ellipsoid)
        let es = if kind == "conformal-sphere" { 0.0 } else { es };
        let w = (1.0 - es * lat.sin() * lat.sin()).sqrt();
        let n = a / w;
        let m = a * (1.0 - es) / (w * w * w);
        // scale along the meridian and along the parallel, their angle, the area scale
        let hh = xp.hypot(yp) / m;
        let kk = xl.hypot(yl) / (n * lat.cos());
        let cos_theta = (xl * xp + yl * yp) / (xl.hypot(yl) * xp.hypot(yp));
        let area = (xl * yp - yl * xp) / (m * n * lat.cos());
        match kind {
            "conformal" | "conformal-sphere" | "tmerc-meridian" => {
                let tol = if kind == "tmerc-meridian" { 2e-8 } else { extra[0] };
                if !((hh / kk - 1.0).abs() < tol) || !(cos_theta.abs() < tol) || !(area > 0.0) {
                    return format!("oracle FAIL {def} at ({lon}, {lat}): meridian scale {hh}, parallel scale {kk}, cosine of their angle {cos_theta:e}, area scale {area}");
                }
                if kind == "tmerc-meridian" && !((kk - extra[0]).abs() < 2e-8) {
                    return format!("oracle FAIL {def}: scale {kk} on the central meridian at latitude {lat}, k_0 is {}", extra[0]);
                }
            }
            "equal-area" => {
                if !((area - 1.0).abs() < extra[0]) {
                    return format!("oracle FAIL {def} at ({lon}, {lat}): area scale {area}");
                }
            }
            _ => {
                // a line or point of true scale
                if !((kk - extra[0]).abs() < extra[1].max(2e-8)) || !((hh - extra[0]).abs() < extra[1].max(2e-8)) {
                    return format!("oracle FAIL {def} at ({lon}, {lat}): scale {kk} along the parallel and {hh} along the meridian, expected {}", extra[0]);
                }
            }
        }
    }
    if kind == "conformal-sphere" {
        // webmerc is the spherical Mercator of radius a
        for p in &pts {
            if let Some((x, y)) = f(p[0], p[1]) {
                let want = (a * p[0], a * (std::f64::consts::FRAC_PI_4 + p[1] / 2.0).tan().ln());
                if !((x - want.0).abs() < 1e-8 * a.max(1.0)) || !((y - want.1).abs() < 1e-8 * a.max(1.0)) {
                    return format!("oracle FAIL {def} at ({}, {}): ({x}, {y}), the spherical Mercator of radius a gives ({}, {})", p[0], p[1], want.0, want.1);
                }
            }
        }
    }
    "oracle pass".to_string()
}

/// an invocation involving macros against the macro-free steps it stands for, applied one after
/// the other as operators of their own (in reverse order for the inverse direction)
fn oracle_c04f(fields: &[&str]) -> String {
    let nres: usize = fields[0].parse().unwrap_or(0);
    let mut resources = vec![];
    for i in 0..nres {
        resources.push((unescape(fields[1 + 2 * i]), unescape(fields[2 + 2 * i])));
    }
    let at = 1 + 2 * nres;
    let inv = unescape(fields[at]);
    let fwd = fields[at + 1] == "F";
    let nseq: usize = fields[at + 2].parse().unwrap_or(0);
    let seq: Vec<String> = (0..nseq).map(|i| unescape(fields[at + 3 + i])).collect();
    let data = parse_data(fields[at + 3 + nseq]);
    let spec = crate::exec::CtxSpec { kind: "default".to_string(), resources, users: vec![] };
    crate::exec::with_ctx(&spec, |ctx| {
        let op = match ctx.op(&inv) {
            Ok(op) => op,
            Err(e) => return format!("oracle FAIL {inv} not instantiable ({})", err_class(&e)),
        };
        let mut got = data.clone();
        let n = ctx.apply(op, if fwd { Fwd } else { Inv }, &mut got).unwrap_or(usize::MAX);
        let mut want = data.clone();
        let mut m = usize::MAX;
        let order: Vec<&String> = if fwd { seq.iter().collect() } else { seq.iter().rev().collect() };
        for sdef in order {
            let sop = match ctx.op(sdef) {
                Ok(o) => o,
                Err(e) => return format!("oracle FAIL step {sdef} not instantiable ({})", err_class(&e)),
            };
            m = m.min(ctx.apply(sop, if fwd { Fwd } else { Inv }, &mut want).unwrap_or(usize::MAX));
        }
        if got.iter().zip(want.iter()).any(|(a, b)| !same_bits(a, b)) {
            return format!("oracle FAIL {inv} ({}): {} but the steps it stands for give {}", if fwd { "forward" } else { "inverse" }, dump_data(&got), dump_data(&want));
        }
        if n != m {
            return format!("oracle FAIL {inv}: count {n}, the steps it stands for count {m}");
        }
        "oracle pass".to_string()
    })
}

/// position_vector forward = coordinate_frame inverse for a pure rotation (the matrices are
/// transposes of each other), and both keep lengths with `exact`
fn oracle_c07t(fields: &[&str]) -> String {
    let (pv, cf) = (unescape(fields[0]), unescape(fields[1]));
    let pts = parse_data(fields[2]);
    let exact = pv.contains(" exact");
    let (Ok((_, a)), Ok((_, b))) = (run_kind("default", &pv, true, &pts), run_kind("default", &cf, false, &pts)) else {
        return format!("oracle FAIL {pv} / {cf} not instantiable");
    };
    let (Ok((_, c)), Ok((_, d))) = (run_kind("default", &pv, false, &pts), run_kind("default", &cf, true, &pts)) else {
        return format!("oracle FAIL {pv} / {cf} not instantiable");
    };
    for (i, p) in pts.iter().enumerate() {
        for (x, y, what) in [(&a[i], &b[i], "position_vector forward vs coordinate_frame inverse"), (&c[i], &d[i], "position_vector inverse vs coordinate_frame forward")] {
            let dist = (0..3).map(|j| (x[j] - y[j]).abs()).fold(0.0, nmax);
            if !(dist < 1e-6) {
                return format!("oracle FAIL {what}: ({}, {}, {}) vs ({}, {}, {}) for {pv}", x[0], x[1], x[2], y[0], y[1], y[2]);
            }
        }
        if exact {
            let r0 = (p[0] * p[0] + p[1] * p[1] + p[2] * p[2]).sqrt();
            let r1 = (a[i][0] * a[i][0] + a[i][1] * a[i][1] + a[i][2] * a[i][2]).sqrt();
            if !((r0 - r1).abs() < 1e-6) {
                return format!("oracle FAIL {pv}: an exact rotation changed the length of the position vector by {}", r1 - r0);
            }
        }
    }
    "oracle pass".to_string()
}

/// semi-major axis and reciprocal flattening as published (PROJ's `pj_ellps` table and the
/// additions of this library)
const PUBLISHED_ELLIPSOIDS: [(&str, f64, f64); 47] = [
    ("MERIT", 6378137.0, 298.257), ("SGS85", 6378136.0, 298.257), ("GRS80", 6378137.0, 298.2572221008827), ("IAU76", 6378140.0, 298.257),
    ("airy", 6377563.396, 299.3249646), ("APL4.9", 6378137.0, 298.25), ("NWL9D", 6378145.0, 298.25), ("mod_airy", 6377340.189, 299.3249373654824),
    ("andrae", 6377104.43, 300.0), ("danish", 6377019.2563, 300.0), ("aust_SA", 6378160.0, 298.25), ("GRS67", 6378160.0, 298.2471674270),
    ("GSK2011", 6378136.5, 298.2564151), ("bessel", 6377397.155, 299.1528128), ("bess_nam", 6377483.865, 299.1528128), ("clrk66", 6378206.4, 294.9786982138982),
    ("clrk80", 6378249.145, 293.4663), ("clrk80ign", 6378249.2, 293.4660212936269), ("CPM", 6375738.7, 334.29), ("delmbr", 6376428.0, 311.5),
    ("engelis", 6378136.05, 298.2566), ("evrst30", 6377276.345, 300.8017), ("evrst48", 6377304.063, 300.8017), ("evrst56", 6377301.243, 300.8017),
    ("evrst69", 6377295.664, 300.8017), ("evrstSS", 6377298.556, 300.8017), ("fschr60", 6378166.0, 298.3), ("fschr60m", 6378155.0, 298.3),
    ("fschr68", 6378150.0, 298.3), ("helmert", 6378200.0, 298.3), ("hough", 6378270.0, 297.0), ("intl", 6378388.0, 297.0),
    ("krass", 6378245.0, 298.3), ("kaula", 6378163.0, 298.24), ("lerch", 6378139.0, 298.257), ("mprts", 6397300.0, 191.0),
    ("new_intl", 6378157.5, 298.2496153900135), ("plessis", 6376523.0, 308.64099709583735), ("PZ90", 6378136.0, 298.25784), ("SEasia", 6378155.0, 298.3000002408657),
    ("walbeck", 6376896.0, 302.78000018165636), ("WGS60", 6378165.0, 298.3), ("WGS66", 6378145.0, 298.25), ("WGS72", 6378135.0, 298.26),
    ("WGS84", 6378137.0, 298.257223563), ("sphere", 6370997.0, 0.0), ("unitsphere", 1.0, 0.0),
];

/// what a coordinate column stands for: a real number, or degrees[:minutes[:seconds]] with an
/// optional N/S/E/W suffix; the sign is that of the degrees as written (`-0` is negative) times
/// that of the suffix
fn ref_sexagesimal(w: &str) -> f64 {
    let w = w.trim();
    if w.is_empty() || w == "NaN" {
        return f64::NAN;
    }
    let (body, suffix) = match w.chars().last() {
        Some(c) if "wWsS".contains(c) => (&w[..w.len() - c.len_utf8()], -1.0),
        Some(c) if "eEnN".contains(c) => (&w[..w.len() - c.len_utf8()], 1.0),
        _ => (w, 1.0),
    };
    let parts: Vec<&str> = body.split(':').collect();
    if parts.len() > 3 {
        return f64::NAN;
    }
    let mut v = [0.0f64; 3];
    for (i, p) in parts.iter().enumerate() {
        match p.parse::<f64>() {
            Ok(x) => v[i] = x,
            Err(_) => return f64::NAN,
        }
    }
    let negative = v[0].is_sign_negative();
    let mag = v[0].abs() + (v[1] + v[2] / 60.0) / 60.0;
    if v[0].is_nan() {
        return f64::NAN;
    }
    suffix * if negative { -mag } else { mag }
}

/// registering a macro name again replaces its definition for instantiations made afterwards;
/// handles made before keep their behaviour
fn oracle_c18s(fields: &[&str]) -> String {
    let spec = crate::exec::CtxSpec { kind: fields[0].to_string(), resources: vec![], users: vec![] };
    let (name, body1, body2) = (unescape(fields[1]), unescape(fields[2]), unescape(fields[3]));
    let probe = vec![Coor4D([1., 2., 3., 4.]), Coor4D([-5., 0.25, 1e3, 2020.])];
    crate::exec::with_ctx(&spec, |ctx| {
        let run = |ctx: &dyn Context, h: OpHandle| -> String {
            let mut d = probe.clone();
            let n = ctx.apply(h, Fwd, &mut d).unwrap_or(usize::MAX);
            format!("{n} {}", dump_data(&d))
        };
        ctx.register_resource(&name, &body1);
        let Ok(h1) = ctx.op(&name) else { return format!("oracle FAIL {name} = {body1} not instantiable") };
        let Ok(d1) = ctx.op(&body1) else { return "oracle skip".to_string() };
        let before = run(ctx, h1);
        if before != run(ctx, d1) {
            return format!("oracle FAIL {name} does not behave like its definition {body1}");
        }
        ctx.register_resource(&name, &body2);
        let Ok(h2) = ctx.op(&name) else { return format!("oracle FAIL {name} = {body2} not instantiable after re-registration") };
        let Ok(d2) = ctx.op(&body2) else { return "oracle skip".to_string() };
        if run(ctx, h2) != run(ctx, d2) {
            return format!("oracle FAIL after registering {name} again as '{body2}' a new instantiation still behaves like '{body1}'");
        }
        if run(ctx, h1) != before {
            return format!("oracle FAIL the handle made before the re-registration of {name} changed its behaviour");
        }
        "oracle pass".to_string()
    })
}

/// the angular unit conversions of a tuple touch the angular elements only, agree with the
/// dimension-specific accessors, and undo each other
fn oracle_c19u(fields: &[&str]) -> String {
    let v: Vec<f64> = fields[0].split(',').map(parse_f).collect();
    let c = Coor4D([v[0], v[1], v[2], v[3]]);
    let deg = c.to_degrees();
    let sec = c.to_arcsec();
    let rad = deg.to_radians();
    let same = |a: f64, b: f64| a.to_bits() == b.to_bits() || (a.is_nan() && b.is_nan());
    if !same(deg[2], c[2]) || !same(deg[3], c[3]) || !same(sec[2], c[2]) || !same(sec[3], c[3]) || !same(rad[2], c[2]) || !same(rad[3], c[3]) {
        return format!("oracle FAIL a unit conversion of ({}, {}, {}, {}) changed the height or the time: degrees {:?}, arc seconds {:?}", v[0], v[1], v[2], v[3], deg.0, sec.0);
    }
    let close = |a: f64, b: f64| same(a, b) || (a - b).abs() <= 1e-12 * a.abs().max(b.abs());
    if !close(sec[0], c[0].to_degrees() * 3600.0) || !close(sec[1], c[1].to_degrees() * 3600.0) || !close(deg[0], c[0].to_degrees()) || !close(rad[0], c[0]) || !close(rad[1], c[1]) {
        return format!("oracle FAIL unit conversions of ({}, {}) disagree with the scalar conversions", v[0], v[1]);
    }
    // `to_geo`: to degrees with the first two elements exchanged, nothing else (an angle beyond a half turn stays
    // the angle it is); `Coor4D::geo` undoes it
    let geo = c.to_geo();
    if !close(geo[0], c[1].to_degrees()) || !close(geo[1], c[0].to_degrees()) || !same(geo[2], c[2]) || !same(geo[3], c[3]) {
        return format!("oracle FAIL to_geo of ({}, {}, {}, {}) gives {:?}", v[0], v[1], v[2], v[3], geo.0);
    }
    let back = Coor4D::geo(geo[0], geo[1], geo[2], geo[3]);
    if !close(back[0], c[0]) || !close(back[1], c[1]) {
        return format!("oracle FAIL Coor4D::geo does not undo to_geo on ({}, {})", v[0], v[1]);
    }
    let g2 = Coor2D([v[0], v[1]]).to_geo();
    if !same(g2[0], geo[0]) || !same(g2[1], geo[1]) {
        return format!("oracle FAIL Coor2D::to_geo and Coor4D::to_geo disagree on ({}, {})", v[0], v[1]);
    }
    let (lon, lat, h) = c.xyz_to_arcsec();
    if !same(lon, sec[0]) || !same(lat, sec[1]) || !same(h, sec[2]) {
        return format!("oracle FAIL to_arcsec and xyz_to_arcsec disagree on ({}, {}, {})", v[0], v[1], v[2]);
    }
    let (dlon, dlat, dh, dt) = c.xyzt_to_degrees();
    if !same(dlon, deg[0]) || !same(dlat, deg[1]) || !same(dh, deg[2]) || !same(dt, deg[3]) {
        return format!("oracle FAIL to_degrees and xyzt_to_degrees disagree on ({}, {}, {}, {})", v[0], v[1], v[2], v[3]);
    }
    let back = Coor4D::arcsec(sec[0], sec[1], sec[2], sec[3]);
    if !close(back[0], c[0]) || !close(back[1], c[1]) || !same(back[2], c[2]) || !same(back[3], c[3]) {
        return format!("oracle FAIL Coor4D::arcsec does not undo to_arcsec on ({}, {}, {}, {})", v[0], v[1], v[2], v[3]);
    }
    let c3 = Coor3D([v[0], v[1], v[2]]);
    let s3 = c3.to_arcsec();
    if !same(s3[2], c3[2]) || !same(s3[0], sec[0]) {
        return format!("oracle FAIL Coor3D::to_arcsec of ({}, {}, {}) gives {:?}", v[0], v[1], v[2], s3.0);
    }
    "oracle pass".to_string()
}

/// the constructors of the four tuple types: the sexagesimal ones are the degree one behind the scalar
/// conversions (themselves compared with the model), `gis` is `geo` with the first two arguments exchanged, `raw`
/// takes the elements as they are - for every type alike
fn oracle_c19k(fields: &[&str]) -> String {
    let v: Vec<f64> = fields[0].split(',').map(parse_f).collect();
    let (lat, lon, h, t) = (v[0], v[1], v[2], v[3]);
    let same = |a: &[f64], b: &[f64]| a.len() == b.len() && a.iter().zip(b).all(|(x, y)| x.to_bits() == y.to_bits() || (x.is_nan() && y.is_nan()));
    let (la_dm, lo_dm) = (angular::iso_dm_to_dd(lat), angular::iso_dm_to_dd(lon));
    let (la_dms, lo_dms) = (angular::iso_dms_to_dd(lat), angular::iso_dms_to_dd(lon));
    let checks: Vec<(&str, Vec<f64>, Vec<f64>)> = vec![
        ("Coor4D::iso_dm", Coor4D::iso_dm(lat, lon, h, t).0.to_vec(), Coor4D::geo(la_dm, lo_dm, h, t).0.to_vec()),
        ("Coor4D::iso_dms", Coor4D::iso_dms(lat, lon, h, t).0.to_vec(), Coor4D::geo(la_dms, lo_dms, h, t).0.to_vec()),
        ("Coor3D::iso_dm", Coor3D::iso_dm(lat, lon, h).0.to_vec(), Coor3D::geo(la_dm, lo_dm, h).0.to_vec()),
        ("Coor3D::iso_dms", Coor3D::iso_dms(lat, lon, h).0.to_vec(), Coor3D::geo(la_dms, lo_dms, h).0.to_vec()),
        ("Coor2D::iso_dm", Coor2D::iso_dm(lat, lon).0.to_vec(), Coor2D::geo(la_dm, lo_dm).0.to_vec()),
        ("Coor2D::iso_dms", Coor2D::iso_dms(lat, lon).0.to_vec(), Coor2D::geo(la_dms, lo_dms).0.to_vec()),
        ("Coor32::iso_dm", Coor32::iso_dm(lat, lon).0.iter().map(|x| *x as f64).collect(), Coor32::geo(la_dm, lo_dm).0.iter().map(|x| *x as f64).collect()),
        ("Coor32::iso_dms", Coor32::iso_dms(lat, lon).0.iter().map(|x| *x as f64).collect(), Coor32::geo(la_dms, lo_dms).0.iter().map(|x| *x as f64).collect()),
        ("Coor4D::gis", Coor4D::gis(lon, lat, h, t).0.to_vec(), Coor4D::geo(lat, lon, h, t).0.to_vec()),
        ("Coor3D::gis", Coor3D::gis(lon, lat, h).0.to_vec(), Coor3D::geo(lat, lon, h).0.to_vec()),
        ("Coor2D::gis", Coor2D::gis(lon, lat).0.to_vec(), Coor2D::geo(lat, lon).0.to_vec()),
        ("Coor32::gis", Coor32::gis(lon, lat).0.iter().map(|x| *x as f64).collect(), Coor32::geo(lat, lon).0.iter().map(|x| *x as f64).collect()),
        ("Coor4D::geo", Coor4D::geo(lat, lon, h, t).0.to_vec(), vec![lon.to_radians(), lat.to_radians(), h, t]),
        ("Coor3D::geo", Coor3D::geo(lat, lon, h).0.to_vec(), vec![lon.to_radians(), lat.to_radians(), h]),
        ("Coor2D::geo", Coor2D::geo(lat, lon).0.to_vec(), vec![lon.to_radians(), lat.to_radians()]),
        ("Coor32::geo", Coor32::geo(lat, lon).0.iter().map(|x| *x as f64).collect(), vec![lon.to_radians() as f32 as f64, lat.to_radians() as f32 as f64]),
        ("Coor4D::raw", Coor4D::raw(lat, lon, h, t).0.to_vec(), vec![lat, lon, h, t]),
        ("Coor3D::raw", Coor3D::raw(lat, lon, h).0.to_vec(), vec![lat, lon, h]),
        ("Coor2D::raw", Coor2D::raw(lat, lon).0.to_vec(), vec![lat, lon]),
        ("Coor32::raw", Coor32::raw(lat, lon).0.iter().map(|x| *x as f64).collect(), vec![lat as f32 as f64, lon as f32 as f64]),
    ];
    for (name, got, want) in checks {
        if !same(&got, &want) {
            return format!("oracle FAIL {name}({lat}, {lon}, ..) gives {got:?}, the scalar conversions and the plain constructor {want:?}");
        }
    }
    "oracle pass".to_string()
}
