//! Search oracles: the property itself, evaluated on the implementation by an independent
//! reference written from the documentation.  A failure here is a violation with a replay.
use crate::gens::c12::{prog_text, Ins};
use crate::wire::*;
use geodesy::authoring::*;

pub fn exec_oracle(kind: &str, fields: &[&str]) -> String {
    match kind {
        "S_C12" => oracle_c12(fields),
        "S_C03" => oracle_c03(fields),
        "S_C04" => oracle_c04(fields),
        _ => "bad-case".to_string(),
    }
}

// ----- C12: the abstract stack machine of Rumination 002 (per tuple) -------------------

struct Machine {
    // one stack per tuple, top of stack last
    stacks: Vec<Vec<f64>>,
    data: Vec<[f64; 4]>,
    unspecified: bool,
}

// with an empty operand set there are no per-tuple stacks; the depth is tracked separately
struct Run {
    m: Machine,
    depth: usize,
}

impl Run {
    fn stomp(&mut self) {
        for d in self.m.data.iter_mut() {
            *d = [f64::NAN; 4];
        }
    }

    /// returns the count the instruction reports
    fn step(&mut self, ins: &Ins) -> usize {
        let n = self.m.data.len();
        match ins {
            Ins::Push(a) => {
                for (i, s) in self.m.stacks.iter_mut().enumerate() {
                    for k in a {
                        s.push(self.m.data[i][*k as usize - 1]);
                    }
                }
                self.depth += a.len();
                n
            }
            Ins::Pop(a) => {
                if self.depth < a.len() {
                    self.stomp();
                    return 0;
                }
                for (i, s) in self.m.stacks.iter_mut().enumerate() {
                    for k in a {
                        self.m.data[i][*k as usize - 1] = s.pop().unwrap();
                    }
                }
                self.depth -= a.len();
                n
            }
            Ins::Flip(a) => {
                if self.depth < a.len() {
                    self.stomp();
                    return 0;
                }
                for (i, s) in self.m.stacks.iter_mut().enumerate() {
                    let d = s.len();
                    for (j, k) in a.iter().enumerate() {
                        std::mem::swap(&mut s[d - 1 - j], &mut self.m.data[i][*k as usize - 1]);
                    }
                }
                n
            }
            Ins::Roll(m, k) | Ins::Unroll(m, k) => {
                let m = *m as usize;
                // unroll m,n = roll m,(m-n); a negative n counts from the bottom of the window
                let k = if matches!(ins, Ins::Unroll(_, _)) { m as i64 - *k } else { *k };
                let k = if k < 0 { m as i64 + k } else { k } as usize;
                if m > self.depth {
                    self.stomp();
                    return 0;
                }
                for s in self.m.stacks.iter_mut() {
                    let d = s.len();
                    // rotate the top-m window by k: k times, move the top to the window's bottom
                    s[d - m..].rotate_right(k % m);
                }
                n
            }
            Ins::Swap => {
                if self.depth < 2 {
                    self.m.unspecified = true;
                    return n;
                }
                for s in self.m.stacks.iter_mut() {
                    let d = s.len();
                    s.swap(d - 1, d - 2);
                }
                n
            }
            Ins::LPush(f) => {
                for (i, s) in self.m.stacks.iter_mut().enumerate() {
                    for j in 0..4 {
                        if f[j] {
                            s.push(self.m.data[i][j]);
                        }
                    }
                }
                self.depth += f.iter().filter(|b| **b).count();
                n
            }
            Ins::LPop(f) => {
                for j in (0..4).rev() {
                    if !f[j] {
                        continue;
                    }
                    if self.depth == 0 {
                        for d in self.m.data.iter_mut() {
                            d[j] = f64::NAN;
                        }
                        return 0;
                    }
                    for (i, s) in self.m.stacks.iter_mut().enumerate() {
                        self.m.data[i][j] = s.pop().unwrap();
                    }
                    self.depth -= 1;
                }
                n
            }
            Ins::Addone => {
                for d in self.m.data.iter_mut() {
                    d[0] += 1.0;
                }
                n
            }
            Ins::AddoneInv => {
                for d in self.m.data.iter_mut() {
                    d[0] -= 1.0;
                }
                n
            }
            Ins::Swap12 => {
                for d in self.m.data.iter_mut() {
                    d.swap(0, 1);
                }
                n
            }
        }
    }
}

fn dual(i: &Ins) -> Ins {
    let rev = |a: &Vec<u8>| a.iter().rev().cloned().collect::<Vec<u8>>();
    match i {
        Ins::Push(a) => Ins::Pop(rev(a)),
        Ins::Pop(a) => Ins::Push(rev(a)),
        Ins::Roll(m, n) => Ins::Unroll(*m, *n),
        Ins::Unroll(m, n) => Ins::Roll(*m, *n),
        Ins::LPush(f) => Ins::LPop(*f),
        Ins::LPop(f) => Ins::LPush(*f),
        Ins::Addone => Ins::AddoneInv,
        Ins::AddoneInv => Ins::Addone,
        other => other.clone(),
    }
}

fn oracle_c12(fields: &[&str]) -> String {
    if fields.len() != 3 {
        return "bad-case".to_string();
    }
    let prog: Vec<Ins> = fields[0].split(';').filter_map(Ins::decode).collect();
    let inverse = fields[1] == "I";
    let data = parse_data(fields[2]);
    // reference
    let mut run = Run {
        m: Machine { stacks: vec![vec![]; data.len()], data: data.iter().map(|c| c.0).collect(), unspecified: false },
        depth: 0,
    };
    let seq: Vec<Ins> = if inverse { prog.iter().rev().map(dual).collect() } else { prog.clone() };
    let mut count = usize::MAX;
    for ins in &seq {
        count = count.min(run.step(ins));
    }
    if count == usize::MAX {
        count = data.len();
    }
    if run.m.unspecified {
        return "oracle skip unspecified-swap".to_string();
    }
    // implementation
    let mut ctx = Minimal::default();
    let def = prog_text(&prog);
    let op = match ctx.op(&def) {
        Ok(op) => op,
        Err(e) => return format!("oracle FAIL instantiation err {}", err_class(&e)),
    };
    let mut d = data.clone();
    let n = match ctx.apply(op, if inverse { Inv } else { Fwd }, &mut d) {
        Ok(n) => n,
        Err(e) => return format!("oracle FAIL apply err {}", err_class(&e)),
    };
    let expected: Vec<Coor4D> = run.m.data.iter().map(|c| Coor4D(*c)).collect();
    let got = dump_data(&d);
    let want = dump_data(&expected);
    if n != count || got != want {
        return format!("oracle FAIL abstract-machine expected n={count} data={want} got n={n} data={got}");
    }
    "oracle pass".to_string()
}

// ----- C03: a pipeline is the sequential application of its steps as stand-alone operators ---

fn oracle_c03(fields: &[&str]) -> String {
    let Some((spec, rest)) = crate::exec::parse_ctx(fields) else {
        return "bad-case".to_string();
    };
    if rest.len() < 4 {
        return "bad-case".to_string();
    }
    let def = unescape(rest[0]);
    let nsteps: usize = rest[1].parse().unwrap_or(0);
    let mut steps = vec![];
    for k in 0..nsteps {
        steps.push((rest[2 + 2 * k].to_string(), unescape(rest[3 + 2 * k])));
    }
    let inverse = rest[2 + 2 * nsteps] == "I";
    let data = parse_data(rest[3 + 2 * nsteps]);
    crate::exec::with_ctx(&spec, |ctx| {
        // reference: the steps one after another, each instantiated on its own
        let mut refdata = data.clone();
        let mut count = usize::MAX;
        let order: Vec<usize> = if inverse { (0..nsteps).rev().collect() } else { (0..nsteps).collect() };
        let mut expect_err = false;
        for k in order {
            let (flags, core) = &steps[k];
            let omit = if inverse { flags.contains('V') } else { flags.contains('F') };
            let text = if flags.contains('I') { format!("{core} inv") } else { core.clone() };
            // every step must be instantiable, executed or not
            let op = match ctx.op(&text) {
                Ok(op) => op,
                Err(_) => {
                    expect_err = true;
                    break;
                }
            };
            if omit {
                continue;
            }
            match ctx.apply(op, if inverse { Inv } else { Fwd }, &mut refdata) {
                Ok(n) => count = count.min(n),
                Err(e) => return format!("oracle FAIL reference apply err {}", err_class(&e)),
            }
        }
        if count == usize::MAX {
            count = data.len();
        }
        let pipeline = ctx.op(&def);
        if expect_err {
            // some step cannot be instantiated on its own (e.g. inv of a one-way operator):
            // then the pipeline must be refused as well
            return match pipeline {
                Err(_) => "oracle pass".to_string(),
                Ok(_) => "oracle FAIL pipeline accepted although a step is not instantiable".to_string(),
            };
        }
        let op = match pipeline {
            Ok(op) => op,
            Err(e) => return format!("oracle FAIL instantiation err {}", err_class(&e)),
        };
        let mut d = data.clone();
        let n = match ctx.apply(op, if inverse { Inv } else { Fwd }, &mut d) {
            Ok(n) => n,
            Err(e) => return format!("oracle FAIL apply err {}", err_class(&e)),
        };
        let got = dump_data(&d);
        let want = dump_data(&refdata);
        if n != count || got != want {
            return format!("oracle FAIL sequential expected n={count} data={want} got n={n} data={got}");
        }
        "oracle pass".to_string()
    })
}

// ----- C04: a macro invocation means its expansion --------------------------------------

fn oracle_c04(fields: &[&str]) -> String {
    let nres: usize = fields[0].parse().unwrap_or(0);
    let mut ctx = Minimal::default();
    ctx.register_op("add2", crate::exec::user_ctor("u:add2").unwrap());
    for k in 0..nres {
        ctx.register_resource(&unescape(fields[1 + 2 * k]), &unescape(fields[2 + 2 * k]));
    }
    let def = unescape(fields[1 + 2 * nres]);
    let expect = unescape(fields[2 + 2 * nres]);
    let data = parse_data(fields[3 + 2 * nres]);
    let got = ctx.op(&def);
    let (expect, deep) = match expect.strip_prefix("DEEP:") {
        Some(e) => (e.to_string(), true),
        None => (expect, false),
    };
    if deep && matches!(got, Err(Error::Recursion(_, _))) {
        return "oracle pass".to_string();
    }
    if let Some(class) = expect.strip_prefix("ERR:") {
        return match got {
            Err(e) if err_class(&e) == class => "oracle pass".to_string(),
            Err(e) => format!("oracle FAIL expected error {class}, got error {}", err_class(&e)),
            Ok(_) => format!("oracle FAIL expected error {class}, got an operator"),
        };
    }
    // the expansion, instantiated where no macro exists
    let mut plain = Minimal::default();
    plain.register_op("add2", crate::exec::user_ctor("u:add2").unwrap());
    let want = match plain.op(&expect) {
        Ok(op) => op,
        Err(e) => return format!("oracle skip expansion not instantiable ({})", err_class(&e)),
    };
    let op = match got {
        Ok(op) => op,
        Err(e) => return format!("oracle FAIL invocation refused ({}) but its expansion {} is fine", err_class(&e), escape(&expect)),
    };
    for dir in [Fwd, Inv] {
        let inverse = dir == Inv;
        let mut a = data.clone();
        let mut b = data.clone();
        let na = ctx.apply(op, if inverse { Inv } else { Fwd }, &mut a).unwrap_or(usize::MAX);
        let nb = plain.apply(want, if inverse { Inv } else { Fwd }, &mut b).unwrap_or(usize::MAX);
        if na != nb || dump_data(&a) != dump_data(&b) {
            return format!(
                "oracle FAIL invocation differs from expansion {} ({}): n={} data={} expected n={} data={}",
                escape(&expect),
                if inverse { "inv" } else { "fwd" },
                na,
                dump_data(&a),
                nb,
                dump_data(&b)
            );
        }
    }
    "oracle pass".to_string()
}
