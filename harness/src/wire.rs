//! Line protocol helpers: escaping, hex floats, canonical dumps (mirrors Geodesy/Model/Wire.lean)
use geodesy::authoring::*;

pub fn escape(s: &str) -> String {
    let mut out = String::new();
    for c in s.chars() {
        if c == '\\' {
            out.push_str("\\\\");
        } else if (c as u32) >= 0x20 && (c as u32) <= 0x7E {
            out.push(c);
        } else {
            out.push_str(&format!("\\u{{{:x}}}", c as u32));
        }
    }
    out
}

pub fn unescape(s: &str) -> String {
    let mut out = String::new();
    let cs: Vec<char> = s.chars().collect();
    let mut i = 0;
    while i < cs.len() {
        if cs[i] == '\\' && i + 1 < cs.len() {
            if cs[i + 1] == '\\' {
                out.push('\\');
                i += 2;
                continue;
            }
            if cs[i + 1] == 'u' && i + 2 < cs.len() && cs[i + 2] == '{' {
                let mut j = i + 3;
                let mut v: u32 = 0;
                while j < cs.len() && cs[j] != '}' {
                    v = v.wrapping_mul(16).wrapping_add(cs[j].to_digit(16).unwrap_or(0));
                    j += 1;
                }
                out.push(char::from_u32(v).unwrap_or('\u{fffd}'));
                i = j + 1;
                continue;
            }
            out.push(cs[i + 1]);
            i += 2;
            continue;
        }
        out.push(cs[i]);
        i += 1;
    }
    out
}

pub fn fbits(x: f64) -> String {
    if x.is_nan() {
        "7ff8000000000000".to_string()
    } else {
        format!("{:016x}", x.to_bits())
    }
}

pub fn parse_f(s: &str) -> f64 {
    f64::from_bits(u64::from_str_radix(s, 16).unwrap_or(0))
}

pub fn parse_data(s: &str) -> Vec<Coor4D> {
    if s.is_empty() {
        return vec![];
    }
    s.split(';')
        .map(|c| {
            let v: Vec<f64> = c.split(',').map(parse_f).collect();
            Coor4D([v[0], v[1], v[2], v[3]])
        })
        .collect()
}

pub fn dump_data(d: &[Coor4D]) -> String {
    d.iter()
        .map(|c| c.0.iter().map(|x| fbits(*x)).collect::<Vec<_>>().join(","))
        .collect::<Vec<_>>()
        .join(";")
}

pub fn data_of(rows: &[[f64; 4]]) -> String {
    rows.iter()
        .map(|c| c.iter().map(|x| fbits(*x)).collect::<Vec<_>>().join(","))
        .collect::<Vec<_>>()
        .join(";")
}

fn dump_map(m: &BTreeMap<String, String>) -> String {
    let items: Vec<String> = m.iter().map(|(k, v)| format!("{}={}", escape(k), escape(v))).collect();
    format!("{{{}}}", items.join(","))
}

const ZERO_IMPLICIT: [&str; 16] = [
    "x_0", "x_1", "x_2", "x_3", "y_0", "y_1", "y_2", "y_3", "lat_0", "lat_1", "lat_2", "lat_3", "lon_0", "lon_1",
    "lon_2", "lon_3",
];
const UNIT_IMPLICIT: [&str; 4] = ["k_0", "k_1", "k_2", "k_3"];

/// implicit gamut elements still at their default are left out of the dump (both sides)
pub fn is_implicit_default(k: &str, v: f64) -> bool {
    (ZERO_IMPLICIT.contains(&k) && v.to_bits() == 0) || (UNIT_IMPLICIT.contains(&k) && v == 1.0)
}

pub fn dump_parsed(p: &ParsedParameters) -> String {
    let bools: Vec<String> = p.boolean.iter().map(|k| escape(k)).collect();
    let nats: Vec<String> = p.natural.iter().map(|(k, v)| format!("{}={}", escape(k), v)).collect();
    let ints: Vec<String> = p.integer.iter().map(|(k, v)| format!("{}={}", escape(k), v)).collect();
    let reals: Vec<String> = p
        .real
        .iter()
        .filter(|(k, v)| !is_implicit_default(k, **v))
        .map(|(k, v)| format!("{}=f:{}", escape(k), fbits(*v)))
        .collect();
    let series: Vec<String> = p
        .series
        .iter()
        .map(|(k, v)| {
            format!(
                "{}=[{}]",
                escape(k),
                v.iter().map(|x| format!("f:{}", fbits(*x))).collect::<Vec<_>>().join(" ")
            )
        })
        .collect();
    let text: Vec<String> = p.text.iter().map(|(k, v)| format!("{}={}", escape(k), escape(v))).collect();
    let texts: Vec<String> = p
        .texts
        .iter()
        .map(|(k, v)| format!("{}=[{}]", escape(k), v.iter().map(|x| escape(x)).collect::<Vec<_>>().join("|")))
        .collect();
    format!(
        "name={} bool={{{}}} nat={{{}}} int={{{}}} real={{{}}} series={{{}}} text={{{}}} texts={{{}}} given={}",
        escape(&p.name),
        bools.join(","),
        nats.join(","),
        ints.join(","),
        reals.join(","),
        series.join(","),
        text.join(","),
        texts.join(","),
        dump_map(&p.given)
    )
}

/// structure only: what every operator has, whatever its constructor derives
pub fn dump_skel(p: &ParsedParameters) -> String {
    let bools: Vec<String> = p
        .boolean
        .iter()
        .filter(|k| ["inv", "omit_fwd", "omit_inv"].contains(k))
        .map(|k| escape(k))
        .collect();
    format!("name={} bool={{{}}} given={}", escape(&p.name), bools.join(","), dump_map(&p.given))
}

pub fn dump_op(o: &Op, full: bool) -> String {
    let steps: Vec<String> = o.steps.iter().map(|s| dump_op(s, full)).collect();
    format!(
        "({}{}def={} {} steps=[{}])",
        if o.descriptor.inverted { "inverted " } else { "" },
        if o.descriptor.invertible { "invertible " } else { "" },
        escape(&o.descriptor.definition),
        if full { dump_parsed(&o.params) } else { dump_skel(&o.params) },
        steps.join(" ")
    )
}

pub fn err_class(e: &Error) -> &'static str {
    match e {
        Error::Io(_) => "Io",
        Error::General(_) => "General",
        Error::Syntax(_) => "Syntax",
        Error::Operator(_, _) => "Operator",
        Error::InvalidHeader { .. } => "Invalid",
        Error::Unexpected { .. } => "Invalid",
        Error::NotFound(_, _) => "NotFound",
        Error::Recursion(_, _) => "Recursion",
        Error::NonInvertible(_) => "NonInvertible",
        Error::MissingParam(_) => "MissingParam",
        Error::BadParam(_, _) => "BadParam",
        Error::Unsupported(_) => "Unsupported",
        Error::Invalid(_) => "Invalid",
        Error::Utf8Error(_) => "Invalid",
        Error::Unknown => "General",
    }
}
