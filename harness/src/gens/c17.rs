//! C17: PROJ definitions, structured, with their PROJ rendering and the hand-written Geodesy
//! counterpart
use super::Gen;
use crate::rng::Rng;

#[derive(Clone, Debug)]
pub struct PStep {
    pub name: String,
    pub params: Vec<(String, String)>,
    pub inv: bool,
    pub omit_fwd: bool,
    pub omit_inv: bool,
}

#[derive(Clone, Debug)]
pub struct PPipe {
    pub pipeline: bool,
    pub globals: Vec<(String, String)>,
    pub inv: bool,
    pub steps: Vec<PStep>,
}

fn tidy(params: &[(String, String)]) -> Vec<(String, String)> {
    // a + rf (without ellps) become ellps=a,rf; the first k becomes k_0
    let has_ellps = params.iter().any(|(k, _)| k == "ellps");
    let a = params.iter().rev().find(|(k, _)| k == "a").map(|(_, v)| v.clone());
    let rf = params.iter().rev().find(|(k, _)| k == "rf").map(|(_, v)| v.clone());
    let mut out: Vec<(String, String)> = vec![];
    let compose = !has_ellps && a.is_some() && rf.is_some();
    let mut k_done = false;
    for (k, v) in params {
        if compose && (k == "a" || k == "rf") {
            continue;
        }
        if k == "k" && !k_done {
            out.push(("k_0".to_string(), v.clone()));
            k_done = true;
        } else {
            out.push((k.clone(), v.clone()));
        }
    }
    if compose {
        out.push(("ellps".to_string(), format!("{},{}", a.unwrap(), rf.unwrap())));
    }
    out
}

fn kv(p: &[(String, String)]) -> String {
    p.iter().map(|(k, v)| if v.is_empty() { k.clone() } else { format!("{k}={v}") }).collect::<Vec<_>>().join(" ")
}

impl PPipe {
    /// the hand-written Geodesy counterpart
    pub fn geodesy(&self) -> String {
        let g = kv(&tidy(&self.globals));
        let mut steps: Vec<String> = self
            .steps
            .iter()
            .map(|s| {
                let mut w = vec![s.name.clone()];
                if !g.is_empty() {
                    w.push(g.clone());
                }
                let l = kv(&tidy(&s.params));
                if !l.is_empty() {
                    w.push(l);
                }
                if s.inv != self.inv {
                    w.push("inv".to_string());
                }
                let (of, oi) = if self.inv { (s.omit_inv, s.omit_fwd) } else { (s.omit_fwd, s.omit_inv) };
                if of {
                    w.push("omit_fwd".to_string());
                }
                if oi {
                    w.push("omit_inv".to_string());
                }
                w.join(" ")
            })
            .collect();
        if self.inv {
            steps.reverse();
        }
        steps.join(" | ")
    }

    /// a PROJ rendering: optional `+`, `step` keywords, layout noise, comments
    pub fn proj(&self, r: &mut Rng) -> String {
        let plus = r.chance(2, 3);
        let p = |s: &str| if plus { format!("+{s}") } else { s.to_string() };
        let mut words: Vec<String> = vec![];
        let mut put = |w: String, words: &mut Vec<String>, r: &mut Rng| {
            if !words.is_empty() {
                match r.below(12) {
                    0 => words.push(r.pick(&["\n", "\n", "\r\n", "\r"]).to_string()),
                    1 => words.push("  ".to_string()),
                    2 if plus => words.push(r.pick(&[" # a comment\n", " # a comment (EPSG #4230) # and more\n", " ## doubled\n", " #\n", " # a comment\r\n", " # a comment\r", " # ED50 -> ETRS89\n", " # accuracy > 1 m, < 5 m\n", " # <draft>\n"]).to_string()),
                    _ => words.push(" ".to_string()),
                }
            }
            // white space around the equals sign is insignificant (also for `proj = …` itself)
            let w = if w.contains('=') && r.chance(1, 5) { w.replacen('=', *r.pick(&[" = ", "= ", " =", "  =\t"]), 1) } else { w };
            words.push(w);
        };
        if self.pipeline {
            let mut head: Vec<String> = vec![p("proj=pipeline")];
            for (k, v) in &self.globals {
                head.push(p(&if v.is_empty() { k.clone() } else { format!("{k}={v}") }));
            }
            if self.inv {
                let pos = 1 + r.below(head.len());
                head.insert(pos, p("inv"));
            }
            for w in head {
                put(w, &mut words, r);
            }
        }
        for s in &self.steps {
            if self.pipeline {
                put(p("step"), &mut words, r);
            }
            let mut items: Vec<String> = vec![format!("proj={}", s.name)];
            for (k, v) in &s.params {
                items.push(if v.is_empty() { k.clone() } else { format!("{k}={v}") });
            }
            if s.inv {
                items.push("inv".to_string());
                // a flag is there or it is not: written twice it is still there
                if r.chance(1, 6) {
                    items.push("inv".to_string());
                }
            }
            if s.omit_fwd {
                items.push("omit_fwd".to_string());
            }
            if s.omit_inv {
                items.push("omit_inv".to_string());
            }
            // PROJ does not care about the order of the items of a step
            if r.chance(1, 2) {
                let n = items.len();
                for i in (1..n).rev() {
                    items.swap(i, r.below(i + 1));
                }
            }
            for it in items {
                put(p(&it), &mut words, r);
            }
        }
        words.join("")
    }
}

fn random_step(r: &mut Rng, modelled_only: bool) -> PStep {
    let modelled: [(&str, Vec<(&str, &str)>); 10] = [
        // explicit signs and exponent signs are part of a value, not a prefix
        ("helmert", vec![("x", "1e+1"), ("y", "-5e+0"), ("z", "+3")]),
        ("helmert", vec![("x", "+2.5E+1"), ("rx", "5e-1"), ("convention", "position_vector")]),
        ("helmert", vec![("translation", "1e+1,+2,-3e+0")]),
        ("helmert", vec![("x", "10"), ("y", "-5")]),
        ("helmert", vec![("x", "1"), ("rx", "0.5"), ("convention", "position_vector")]),
        ("axisswap", vec![("order", "2,1")]),
        ("unitconvert", vec![("xy_in", "deg"), ("xy_out", "rad")]),
        ("noop", vec![]),
        ("addone", vec![]),
        ("unitconvert", vec![("z_in", "ft")]),
    ];
    let others: [(&str, Vec<(&str, &str)>); 10] = [
        ("tmerc", vec![("lon_0", "+9"), ("k", "9.996e-1"), ("x_0", "5e+5")]),
        ("tmerc", vec![("lon_0", "9"), ("x_0", "5.0E+05"), ("y_0", "-1e+6")]),
        ("cart", vec![]),
        ("cart", vec![("ellps", "intl")]),
        ("cart", vec![("a", "6378388"), ("rf", "297")]),
        ("utm", vec![("zone", "32")]),
        ("tmerc", vec![("lon_0", "9"), ("k", "0.9996"), ("x_0", "500000")]),
        ("tmerc", vec![("k", "0.9996"), ("a", "6377397.155"), ("rf", "299.1528128"), ("lon_0", "9")]),
        ("merc", vec![("lon_0", "5")]),
        ("lcc", vec![("lat_1", "33"), ("lat_2", "45"), ("lon_0", "10"), ("k_0", "0.99")]),
    ];
    let (name, params) = if modelled_only || r.chance(1, 2) { r.pick(&modelled).clone() } else { r.pick(&others).clone() };
    PStep {
        name: name.to_string(),
        params: params.iter().map(|(k, v)| (k.to_string(), v.to_string())).collect(),
        inv: r.chance(1, 4),
        omit_fwd: r.chance(1, 8),
        omit_inv: r.chance(1, 8),
    }
}

pub fn random_pipe(r: &mut Rng, modelled_only: bool) -> PPipe {
    let pipeline = r.chance(4, 5);
    let n = if pipeline { r.below(5) } else { 1 };
    let mut globals = vec![];
    if pipeline {
        match r.below(7) {
            0 => globals.push(("ellps".to_string(), "intl".to_string())),
            1 => {
                globals.push(("a".to_string(), "6378388".to_string()));
                globals.push(("rf".to_string(), "297".to_string()));
            }
            2 => globals.push(("k".to_string(), "0.9999".to_string())),
            3 => globals.push(("x".to_string(), "3".to_string())),
            // parameters without a value (flags) are pipeline globals like any other
            4 => globals.push((r.pick(&["exact", "south", "abridged"]).to_string(), String::new())),
            _ => {}
        }
    }
    let mut steps: Vec<PStep> = (0..n).map(|_| random_step(r, modelled_only)).collect();
    if !pipeline {
        for s in steps.iter_mut() {
            s.omit_fwd = false;
            s.omit_inv = false;
        }
    }
    PPipe { pipeline, globals, inv: pipeline && r.chance(1, 3), steps }
}

pub fn generate(g: &mut Gen, thorough: bool) {
    let n = if thorough { 20000 } else { 1500 };
    let data = crate::wire::data_of(&[[0.2, 0.95, 100.0, 2020.0], [0.15, 0.9, 0.0, 2010.0]]);
    for i in 0..n {
        let modelled_only = i % 2 == 0;
        let pp = random_pipe(&mut g.rng, modelled_only);
        let text = pp.proj(&mut g.rng);
        let class = format!(
            "{}-{}-steps{}",
            if pp.pipeline { "pipeline" } else { "single" },
            if pp.inv { "inv" } else { "plain" },
            pp.steps.len().min(3)
        );
        g.push(format!("PROJ\t{}", crate::wire::escape(&text)), &class, pp.steps.len() >= 2);
        if modelled_only {
            let dir = if g.rng.chance(1, 2) { "F" } else { "I" };
            g.push(super::op_line("plain", &[], &[], &text, "both", dir, &data), &format!("op-{class}"), pp.steps.len() >= 2);
        }
        g.push(
            format!("S_C17\t{}\t{}\t{}", crate::wire::escape(&text), crate::wire::escape(&pp.geodesy()), data),
            &format!("oracle-{class}"),
            pp.steps.len() >= 2,
        );
    }
    // text that is not PROJ syntax reaches the operator as it was written: laid out over several lines, with
    // comments and continuation colons, it is the same operation in Plain (which translates) as in Minimal (which
    // does not)
    {
        use super::lang::StepSpec;
        let cores = ["addone", "helmert x=3", "cart ellps=intl", "axisswap order=2,1", "noop", "helmert y=-2 z=5", "cart inv ellps=GRS80", "utm zone=32"];
        for k in 0..(if thorough { 3000 } else { 300 }) {
            let len = 1 + g.rng.below(4);
            let steps: Vec<StepSpec> = (0..len)
                .map(|_| StepSpec { core: g.rng.pick(&cores).to_string(), inv: g.rng.chance(1, 4), omit_fwd: g.rng.chance(1, 8), omit_inv: g.rng.chance(1, 8) })
                .collect();
            let (noisy, _canon) = super::c16::noisy_layout(&mut g.rng, &steps, k % 3 != 0);
            g.push(format!("S_C14\tctx\t{}\t\t{}", crate::wire::escape(&noisy), data), "oracle-geodesy-text-through-plain", true);
            g.push(format!("PROJ\t{}", crate::wire::escape(&noisy)), "geodesy-text-passes-through", true);
            let dir = if g.rng.chance(1, 2) { "F" } else { "I" };
            g.push(super::op_line("plain", &[], &[], &noisy, "both", dir, &data), "op-geodesy-text-through-plain", true);
        }
        for t in [
            "cart ellps=intl # to cartesian\n| helmert x=-87 y=-96 z=-120\n| cart inv ellps=GRS80",
            "# datum shift\ncart ellps=intl |\n  helmert x=-87 # metres\n  | cart inv",
            "helmert\n:x=1\n:y=2 # a comment\n:z=3",
            "addone # one\r\n| addone # two\r\n| addone inv",
        ] {
            g.push(format!("S_C14\tctx\t{}\t\t{}", crate::wire::escape(t), data), "oracle-geodesy-text-through-plain", true);
            g.push(super::op_line("plain", &[], &[], t, "both", "F", &data), "op-geodesy-text-through-plain", true);
        }
    }
    // a value of the step itself wins over the pipeline's, also when it is the default of the parameter
    for (proj, geodesy) in [
        ("proj=pipeline k=0.9996 step proj=tmerc lon_0=9 k=1 step proj=addone", "tmerc lon_0=9 k_0=1 | addone"),
        ("+proj=pipeline +k_0=0.5 +step +proj=tmerc +lon_0=9 +k=1.0 +step +proj=tmerc +lon_0=9 +inv", "tmerc lon_0=9 k_0=1 | tmerc lon_0=9 k_0=0.5 inv"),
        ("proj=pipeline x_0=500000 step proj=tmerc lon_0=9 x_0=0 step proj=addone", "tmerc lon_0=9 x_0=0 | addone"),
        ("proj=pipeline ellps=intl step proj=tmerc lon_0=9 ellps=GRS80 step proj=cart", "tmerc lon_0=9 ellps=GRS80 | cart ellps=intl"),
        ("proj=pipeline k=2 step proj=merc k=1", "merc k_0=1 |"),
        ("proj=tmerc lon_0=9 k=1", "tmerc lon_0=9 k_0=1"),
    ] {
        g.push(format!("S_C17\t{}\t{}\t{}", crate::wire::escape(proj), crate::wire::escape(geodesy), data), "oracle-step-value-wins", true);
        g.push(format!("PROJ\t{}", crate::wire::escape(proj)), "step-value-wins", true);
        g.push(super::op_line("plain", &[], &[], proj, "both", "F", &data), "op-step-value-wins", true);
    }
    // refusals, pass-through, idempotence
    for t in [
        "proj=pipeline step proj=utm zone=32 step init=epsg:4326",
        "proj=utm zone=32 init=epsg:25832",
        "proj=tmerc lon_0=9  # comment\rx_0=500000 k=0.9996",
        "+proj=pipeline\r+step +proj=addone\r+step +proj=helmert +x=3\r",
        "+proj=pipeline\r\n+step +proj=addone # one\r\n+step +inv +proj=addone\r\n",
        "+proj=pipeline +init=epsg:25832 +step +proj=utm +zone=32",
        "proj=pipeline init=epsg:25832 step proj=utm zone=32 step proj=addone",
        "proj=pipeline ellps=intl init=epsg:25832 step proj=cart",
        "proj=pipeline step proj=utm zone=32 init=epsg:25832 step proj=addone",
        "+proj=pipeline # a comment with a second # in it\n+step +proj=addone\n+step +proj=helmert +x=3 # (EPSG #1234) shift\n+step +proj=addone +inv",
        "init=epsg:25832 proj=utm zone=32",
        "proj=pipeline step proj=pipeline step proj=utm zone=32",
        "proj=pipeline step proj=utm zone=32 step proj=pipeline",
        // a step list without a header of its own, a pipeline header further on
        "proj=utm zone=32 step proj=pipeline step proj=utm inv zone=33",
        "+proj=addone +step +proj=pipeline +ellps=intl +step +proj=cart",
        "proj=addone step proj=addone step inv proj=pipeline step proj=addone",
        "utm zone=32 | cart",
        "cart ellps=intl",
        "projection=1",
        "+proj=pipeline # nothing but a comment\n+step +proj=noop",
        "+proj=pipeline # ED50 -> ETRS89\n+step +proj=addone\n+step +proj=helmert +x=3 # accuracy > 1 m",
        "+proj=utm +zone=32 # west < east",
        "proj=pipeline\n# comment line\n+step proj=addone\n+step proj=addone inv",
        "proj=pipeline step step proj=addone step",
        "+proj=pipeline +step +inv +proj=helmert +x=3 +step +proj=addone",
        "proj=helmert k=1 k=2 x=1",
        "proj=pipeline ellps=GRS80 step proj=cart a=1 rf=2",
        "",
        "proj",
        "proj=",
        "+",
    ] {
        g.push(format!("PROJ\t{}", crate::wire::escape(t)), "edge", true);
        g.push(format!("S_C17E\t{}", crate::wire::escape(t)), "oracle-edge", true);
    }
}
