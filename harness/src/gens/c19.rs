//! C19: coordinate containers and angular encodings
use super::Gen;
use crate::wire::fbits;

pub fn generate(g: &mut Gen, thorough: bool) {
    // the degree-minute-second spellings of text: every sign, zero degrees, fractions of the last field
    super::c16::sexagesimal_cases(g);
    // angles on a fine lattice in [-720, 720] degrees, with attention to carries and |angle| < 1
    let mut angles: Vec<f64> = vec![];
    let step = if thorough { 0.0125 } else { 0.25 };
    let mut a = -720.0;
    while a <= 720.0 {
        angles.push(a);
        a += step;
    }
    for d in [0.0, 1.0, 12.0, 179.0, 359.0] {
        for m in [0.0, 0.5, 29.0, 59.0, 59.5] {
            for s in [0.0, 0.001, 30.0, 59.0, 59.999, 59.9999999] {
                let v = d + (m + s / 60.0) / 60.0;
                angles.push(v);
                angles.push(-v);
            }
        }
    }
    // whole minutes and whole seconds, computed as a user would (d + m/60 + s/3600): where the fields carry
    for d in [0.0, 7.0, 17.0, 55.0, 123.0, 359.0, 719.0] {
        for m in 0..60 {
            for sec in [0.0, 1.0, 30.0, 59.0] {
                let v = d + m as f64 / 60.0 + sec / 3600.0;
                angles.push(v);
                if m % 7 == 0 {
                    angles.push(-v);
                }
            }
        }
    }
    for _ in 0..(if thorough { 20000 } else { 2000 }) {
        angles.push(g.rng.uniform(-720.0, 720.0));
        angles.push(g.rng.uniform(-1.0, 1.0));
    }
    for x in [0.0, -0.0, f64::NAN, f64::INFINITY, -f64::INFINITY, 1e-300, -1e-300, 1e10, -4.3e9, 4294967296.0, 1e300] {
        angles.push(x);
    }
    // a hair below and above a whole degree, a whole minute, a whole second (where a rounded field would have to carry)
    for whole in [1.0f64, 12.0, 55.0, 90.0, 179.0, 180.0, 359.0] {
        for sub in [0.0, 30.0 / 60.0, 59.0 / 60.0, 30.0 / 60.0 + 59.0 / 3600.0, 59.0 / 60.0 + 59.0 / 3600.0] {
            for eps in [1e-14, 1e-13, 1e-12, 2e-12, 5e-12, 8e-12, 1e-11, 1e-10, 1e-9] {
                for sgn in [1.0, -1.0] {
                    angles.push(sgn * (whole + sub - eps));
                    angles.push(sgn * (whole + sub + eps));
                }
            }
            angles.push(f64::from_bits((whole + sub).to_bits() - 1));
            angles.push(-f64::from_bits((whole + sub).to_bits() - 1));
        }
    }
    for x in &angles {
        for f in ["dd_to_iso_dm", "dd_to_iso_dms", "iso_dm_to_dd", "iso_dms_to_dd"] {
            g.push(format!("ANG\t{}\t{}", f, fbits(*x)), f, true);
        }
        let r = x.to_radians();
        for f in ["normalize_symmetric", "normalize_positive"] {
            g.push(format!("ANG\t{}\t{}", f, fbits(r)), f, true);
        }
        g.push(format!("S_C19A\t{}", fbits(*x)), "oracle-angle", true);
    }
    for d in [-180i32, -12, -1, 0, 1, 12, 179, i32::MIN, i32::MAX] {
        for m in [0u16, 1, 30, 59] {
            for s in [0.0, 0.5, 36.0, 59.999] {
                g.push(format!("ANG\tdms_to_dd\t{},{},{}", fbits(d as f64), fbits(m as f64), fbits(s)), "dms_to_dd", true);
                g.push(format!("ANG\tdm_to_dd\t{},{}", fbits(d as f64), fbits(m as f64 + s / 60.0)), "dm_to_dd", true);
                g.push(format!("S_C19D\t{}\t{}\t{}", d, m, fbits(s)), "oracle-dms", true);
            }
        }
    }
    // the dm / dms operators through a context: every angle of [-720, 720] degrees is encoded and
    // decoded as it is (no wrapping into a "usual" range), model against implementation and round trip
    {
        let mut rows: Vec<[f64; 4]> = vec![];
        for lon in [-719.75, -540.5, -360.0, -185.5, -180.0, -179.999, -0.51, 0.0, 0.51, 179.5, 180.0, 180.25, 185.5, 270.0, 359.999, 360.0, 540.25, 719.5] {
            for lat in [-89.75, -0.25, 0.0, 12.5, 90.0] {
                rows.push([(lon as f64).to_radians(), (lat as f64).to_radians(), 10.0, 2000.0]);
            }
        }
        for _ in 0..(if thorough { 2000 } else { 100 }) {
            rows.push([g.rng.uniform(-720.0, 720.0).to_radians(), g.rng.uniform(-90.0, 90.0).to_radians(), 0.0, 0.0]);
        }
        for chunk in rows.chunks(30) {
            let data = crate::wire::data_of(chunk);
            for op in ["dm", "dms"] {
                g.push(super::op_line("default", &[], &[], op, "apply", "I", &data), &format!("op-{op}-inv"), true);
                g.push(super::op_line("default", &[], &[], &format!("{op} inv | {op}"), "apply", "F", &data), &format!("op-{op}-roundtrip"), true);
                g.push(format!("S_C19O\t{op}\t{data}"), "oracle-iso6709-operators", true);
            }
        }
    }
    // containers: every kind x every f64 class
    let specials = [0.0, -0.0, 1.5, -2.25, f64::NAN, f64::INFINITY, -f64::INFINITY, 1e-310, 1e300, 16777217.0];
    for a in specials {
        for b in specials {
            g.push(format!("S_C19C\t{},{},{},{}", fbits(a), fbits(b), fbits(a + 1.0), fbits(b - 1.0)), "oracle-container", true);
        }
    }
    for _ in 0..(if thorough { 5000 } else { 500 }) {
        let v: Vec<String> = (0..4).map(|_| fbits(f64::from_bits(g.rng.next()))).collect();
        g.push(format!("S_C19C\t{}", v.join(",")), "oracle-container-bits", true);
    }
    // the tuple trait's default methods, model against implementation: every method x every dimension
    // x indices in and out of range x slices shorter than, as long as and longer than the tuple
    {
        let pool = [0.0, -0.0, 1.5, -2.25, f64::NAN, f64::INFINITY, 1e-310, 7.0, 8.0, 9.0];
        let pickv = |g: &mut Gen| if g.rng.chance(1, 3) { f64::from_bits(g.rng.next()) } else { *g.rng.pick(&pool) };
        // (1, 5, 6: tuple types of a user, with the trait's defaults for everything but the three required methods)
        for dim in ["2", "3", "4", "p", "1", "5", "6"] {
            let n = match dim { "2" | "p" => 2, "3" => 3, "1" => 1, "5" => 5, "6" => 6, _ => 4 };
            for _ in 0..(if thorough { 40 } else { 6 }) {
                let vals: Vec<String> = (0..n).map(|_| fbits(pickv(g))).collect();
                let vals = vals.join(",");
                let mut ops: Vec<(String, String)> = vec![];
                for op in ["x", "y", "z", "t"] {
                    ops.push((op.to_string(), "-".to_string()));
                }
                ops.push(("scale".to_string(), fbits(pickv(g))));
                {
                    let a: Vec<String> = (0..n).map(|_| fbits(pickv(g))).collect();
                    ops.push(("dot".to_string(), a.join(",")));
                }
                for i in [0.0, 1.0, 2.0, 3.0, 4.0, 5.0, 6.0, 9.0, 1e19] {
                    ops.push(("nth".to_string(), fbits(i)));
                    ops.push(("set_nth".to_string(), format!("{},{}", fbits(i), fbits(pickv(g)))));
                }
                ops.push(("fill".to_string(), fbits(pickv(g))));
                for (op, k) in [("set_xy", 2), ("set_xyz", 3), ("set_xyzt", 4)] {
                    let a: Vec<String> = (0..k).map(|_| fbits(pickv(g))).collect();
                    ops.push((op.to_string(), a.join(",")));
                }
                for k in 0..=6 {
                    let a: Vec<String> = (0..k).map(|_| fbits(pickv(g))).collect();
                    ops.push(("update".to_string(), if k == 0 { "-".to_string() } else { a.join(",") }));
                }
                for (op, a) in ops {
                    g.push(format!("TUP\t{dim}\t{vals}\t{op}\t{a}"), &format!("tuple-{op}"), true);
                }
            }
        }
    }
    // tuple types of a user, of one to eight elements: the element-wise definitions
    for n in [1usize, 2, 3, 4, 5, 6, 8] {
        for _ in 0..(if thorough { 60 } else { 8 }) {
            let special = [0.0, -0.0, f64::NAN, f64::INFINITY, 1e-300, 100.0, 2020.0, -7.5];
            let mut pick = |g: &mut Gen| if g.rng.chance(1, 6) { *g.rng.pick(&special) } else { g.rng.uniform(-1000.0, 1000.0) };
            let v: Vec<String> = (0..n).map(|_| crate::wire::fbits(pick(g))).collect();
            let w: Vec<String> = (0..n).map(|_| crate::wire::fbits(pick(g))).collect();
            let f = pick(g);
            g.push(format!("S_C19T\t{}\t{}\t{}", v.join(","), w.join(","), crate::wire::fbits(f)), "oracle-user-tuples", true);
        }
    }
    // unit conversions of whole tuples: angular elements only
    for _ in 0..(if thorough { 2000 } else { 200 }) {
        let special = [0.0, -0.0, f64::NAN, f64::INFINITY, 1e-300, 100.0, 2020.0, -7.5];
        let pick = |g: &mut Gen, lo: f64, hi: f64| if g.rng.chance(1, 5) { *g.rng.pick(&special) } else { g.rng.uniform(lo, hi) };
        // (angles are kept as they are: two turns either way are angles like any other)
        let wide = g.rng.chance(1, 3);
        let v = [if wide { pick(g, -12.6, 12.6) } else { pick(g, -3.2, 3.2) }, if wide { pick(g, -6.3, 6.3) } else { pick(g, -1.6, 1.6) }, pick(g, -100.0, 9000.0), pick(g, 1990.0, 2030.0)];
        g.push(format!("S_C19U\t{}", v.iter().map(|x| crate::wire::fbits(*x)).collect::<Vec<_>>().join(",")), "oracle-tuple-unit-conversions", true);
        // the constructors read the same tuple as sexagesimal, degrees, or raw numbers: all four types alike
        g.push(format!("S_C19K\t{}", v.iter().map(|x| crate::wire::fbits(*x)).collect::<Vec<_>>().join(",")), "oracle-tuple-constructors", true);
        let dms = [(g.rng.below(89) as f64 * 10000.0 + g.rng.below(60) as f64 * 100.0 + g.rng.uniform(0.0, 59.99)) * if g.rng.chance(1, 3) { -1.0 } else { 1.0 },
            g.rng.below(179) as f64 * 10000.0 + g.rng.below(60) as f64 * 100.0 + g.rng.uniform(0.0, 59.99), g.rng.uniform(-100.0, 5000.0), 2020.5];
        g.push(format!("S_C19K\t{}", dms.iter().map(|x| crate::wire::fbits(*x)).collect::<Vec<_>>().join(",")), "oracle-tuple-constructors", true);
    }
}
