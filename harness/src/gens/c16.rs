//! C16: layout variants of well-formed definitions; typed parameter spellings
use super::lang::{ctx_fields, make_world, random_steps, StepSpec, World};
use super::Gen;
use crate::rng::Rng;

fn ws1(r: &mut Rng) -> String {
    // at least one white space character
    let n = 1 + r.below(3);
    (0..n).map(|_| *r.pick(&[" ", " ", "\t", "\n", "\r\n", "\r", "\n:", "\r:", "\r\n:", "\u{a0}", "\u{2003}", " \n: "])).collect::<Vec<_>>().join("")
}
fn ws0(r: &mut Rng) -> String {
    if r.chance(1, 2) {
        String::new()
    } else {
        ws1(r)
    }
}

const SUBS: [char; 10] = ['\u{2080}', '\u{2081}', '\u{2082}', '\u{2083}', '\u{2084}', '\u{2085}', '\u{2086}', '\u{2087}', '\u{2088}', '\u{2089}'];

/// render one `key=value` item with noise around '=' and ',' and optional subscript spelling
fn noisy_item(r: &mut Rng, item: &str) -> String {
    let Some((k, v)) = item.split_once('=') else { return item.to_string() };
    let mut key = k.to_string();
    if key.len() >= 2 && r.chance(1, 2) {
        let b = key.as_bytes();
        if b[b.len() - 2] == b'_' && b[b.len() - 1].is_ascii_digit() {
            let d = (b[b.len() - 1] - b'0') as usize;
            key = format!("{}{}", &key[..key.len() - 2], SUBS[d]);
        }
    }
    let val: String = v.split(',').collect::<Vec<_>>().join(&format!("{},{}", ws0(r), ws0(r)));
    format!("{}{}={}{}", key, ws0(r), ws0(r), val)
}

/// the same pipeline, laid out with arbitrary insignificant white space, line ends, continuation
/// colons and comments; modifiers stay where the canonical rendering has them
pub fn noisy_layout(r: &mut Rng, steps: &[StepSpec], comments: bool) -> (String, String) {
    let mut out = String::new();
    // the canonical spelling of the same definition: single spaces, `|` only, `_n` keys, and the
    // desugared `omit_*` where the noisy text uses `<` / `>`
    let mut canon_steps: Vec<String> = vec![];
    // leading white space; or a continuation colon as the very first character (the line break
    // in front of it being what `trim` removed)
    if r.chance(1, 3) {
        out += &ws1(r);
    } else if r.chance(1, 6) {
        out += ":";
    }
    for (i, st) in steps.iter().enumerate() {
        let canon = st.canonical();
        let mut words: Vec<String> = canon.split(' ').map(|w| noisy_item(r, w)).collect();
        let canon_words = |c: &str| c.split(' ').map(|w| w.to_string()).collect::<Vec<String>>();
        let mut sep = "|";
        // sugar instead of a trailing omit modifier
        let mut cwords: Vec<String> = canon_words(&canon);
        if words.last().map(|w| w == "omit_fwd").unwrap_or(false) && !st.omit_inv && r.chance(1, 2) {
            words.pop();
            cwords.pop();
            cwords.insert(0, "omit_fwd".to_string());
            sep = "<";
        } else if words.last().map(|w| w == "omit_inv").unwrap_or(false) && !st.omit_fwd && r.chance(1, 2) {
            words.pop();
            cwords.pop();
            cwords.insert(0, "omit_inv".to_string());
            sep = ">";
        }
        canon_steps.push(cwords.join(" "));
        // the position of the modifiers is insignificant: any of them may lead the step (several at
        // once, also behind the `<` / `>` sugar) or sit between the parameters
        if r.chance(1, 3) {
            let (mods, mut rest): (Vec<String>, Vec<String>) = words.iter().cloned().partition(|w| w == "inv" || w == "omit_fwd" || w == "omit_inv");
            let mut lead: Vec<String> = vec![];
            for m in mods {
                match r.below(3) {
                    0 => lead.push(m),
                    1 if rest.len() > 1 => {
                        let at = 1 + r.below(rest.len());
                        rest.insert(at, m);
                    }
                    _ => rest.push(m),
                }
            }
            lead.extend(rest);
            words = lead;
        }
        // a flag behind the operator's name may be spelled out: `inv=true`, in any case (in front of the name only
        // the bare words are modifiers)
        let named = words.iter().position(|w| !(w == "inv" || w == "omit_fwd" || w == "omit_inv")).unwrap_or(usize::MAX);
        for (j, w) in words.iter_mut().enumerate() {
            if j > named && (w == "inv" || w == "omit_fwd" || w == "omit_inv") && r.chance(1, 8) {
                *w = format!("{w}={}", r.pick(&["true", "True", "TRUE", "tRuE"]));
            }
        }
        if i > 0 || sep != "|" {
            out += &ws0(r);
            out += sep;
            out += &ws0(r);
        }
        for (j, w) in words.iter().enumerate() {
            if j > 0 {
                out += &ws1(r);
            }
            out += w;
        }
        if comments && r.chance(1, 4) {
            // a comment runs to the end of its line, however the line ends
            let body = *r.pick(&["not a step = 1", "not a step = 1 # nor this: x=9 | addone", "## y=2 # z=3", "#"]);
            out += &format!(" # comment {} | {}{}", i, body, r.pick(&["\n", "\n", "\r\n", "\r"]));
        }
        // empty steps are insignificant, one or several in a row
        if r.chance(1, 8) {
            for _ in 0..(1 + r.below(3)) {
                out += &format!("{}|{}", ws0(r), ws0(r));
            }
        }
    }
    if comments && r.chance(1, 4) {
        out = format!("# leading comment{}{out}", r.pick(&["\n", "\r\n", "\r"]));
    }
    if !out.contains('|') && !out.contains('<') && !out.contains('>') {
        out += " |";
    }
    let mut c = canon_steps.join(" | ");
    if canon_steps.len() < 2 {
        c += " |";
    }
    (out, c)
}

pub fn canonical(steps: &[StepSpec]) -> String {
    let mut t = steps.iter().map(|s| s.canonical()).collect::<Vec<_>>().join(" | ");
    if steps.len() < 2 {
        t += " |";
    }
    t
}

/// spellings of parameter values, per declared type: (text, comment)
pub fn value_spellings() -> Vec<(&'static str, Vec<&'static str>)> {
    vec![
        ("flag", vec!["", "=true", "=TRUE", "=True", "=tRuE", "=false", "=1", "=yes", "= true", "=tru\u{0435}", "=\u{ff54}rue"]),
        ("natural", vec!["0", "12", "+3", "-1", "1.0", "", "18446744073709551615", "18446744073709551616", "1e2", "０", " 7", "7 ", "0x10", "1_000"]),
        ("integer", vec!["0", "-12", "+3", "--1", "1.0", "", "9223372036854775807", "-9223372036854775808", "9223372036854775808", "-9223372036854775809", "1e2", "٣"]),
        (
            "real",
            vec![
                "0", "1", "-1.5", "+2.25", ".5", "5.", "1e3", "1E-3", "1.5e+2", "-0", "-0.0", "1e400", "1e-400", "4.9e-324", "2.2250738585072011e-308",
                "0.1", "0.30000000000000004", "123456789012345678901234567890", "9007199254740993", "179769313486231580793728971405303415079934132710037826936173778980444968292764750946649017977587207096330286416692887910946555547851940402630657488671505820681908902000708383676273854845817711531764475730270069855571366959622842914819860834936475292719074168444365510704342711559699508093042880177904174497791.9999999999999999999999999999999999999999999999999999999999999999999999",
                "12:30", "12:30:36", "12:30:36.5N", "12:30:36S", "12:30W", "12E", "-0:30", "0:30:00s", "-12:30:36", "1:2:3:4", "1:", ":1", "1::2", "12:30:36X", "N", "12 N",
                "", "abc", "1°", "NaN", "nan", "inf", "-inf", "infinity", "1e", "1e+", "0x1p3", "1,5", "--1", "+-1", "1_0", "١٢",
            ],
        ),
        ("series", vec!["1,2,3", "1", "1,,2", "", ",", "1:30,2:15:30W", "1,2,abc", "1e2,-0.5,+.25", "1 ,2", "1, 2", "1,2,"]),
        ("text", vec!["abc", "", "a,b", "a:b", "\u{e6}\u{f8}\u{e5}", "$q", "(d)", "=x"]),
        ("names", vec!["a,b", " a , b ", "", "a,,b", "a", "a,b,", ",a", ",", "a,", "a, ,b", "@x,y,@null"]),
    ]
}

pub fn generate(g: &mut Gen, thorough: bool) {
    // 1. layout variants
    let n = if thorough { 20000 } else { 1500 };
    for _ in 0..n {
        let nmac = g.rng.below(4);
        let mut w: World = make_world(&mut g.rng, nmac);
        let len = 1 + g.rng.below(6);
        let mut steps = random_steps(&mut g.rng, &w, len);
        // macros taking arguments: the arguments reach the body wherever the modifiers of the step stand
        w.resources.push(("m:shift".to_string(), "helmert x=$east y=$north(1)".to_string()));
        if g.rng.chance(1, 3) {
            let core = *g.rng.pick(&["m:shift east=5", "m:shift east=-2 north=3"]);
            let at = g.rng.below(steps.len() + 1);
            steps.insert(at, StepSpec { core: core.to_string(), inv: g.rng.chance(1, 2), omit_fwd: g.rng.chance(1, 4), omit_inv: g.rng.chance(1, 4) });
        }
        // parameters with index suffixes, so that the subscript spelling has something to do
        if g.rng.chance(1, 2) {
            steps.push(StepSpec::plain("add2 lon_0=9 x_0=500000 k_0=0.9996 lat_0=0"));
        }
        if g.rng.chance(1, 4) {
            steps.push(StepSpec::plain("axisswap order=2,1,3"));
        }
        // steps that work on the stack of the pipeline are steps like any other: modifiers in front, sugar, noise
        if g.rng.chance(1, 3) {
            let a = g.rng.below(steps.len() + 1);
            let (push, pop) = *g.rng.pick(&[("stack push=1,2", "stack pop=2,1"), ("push v_1 v_2", "pop v_2 v_1"), ("stack push=3", "stack pop=1"), ("stack push=1,2,3", "stack roll=3,1")]);
            steps.insert(a, StepSpec { core: push.to_string(), inv: false, omit_fwd: g.rng.chance(1, 4), omit_inv: g.rng.chance(1, 4) });
            let b = a + 1 + g.rng.below(steps.len() - a);
            steps.insert(b, StepSpec { core: pop.to_string(), inv: g.rng.chance(1, 6), omit_fwd: g.rng.chance(1, 4), omit_inv: g.rng.chance(1, 4) });
        }
        let comments = g.rng.chance(1, 2);
        let (noisy, canon) = noisy_layout(&mut g.rng, &steps, comments);
        // (a third of them through Plain, whose translator of PROJ syntax must leave them alone)
        let cf = ctx_fields(if g.rng.chance(1, 3) { "plain" } else { "default" }, &w).join("\t");
        let data = super::probe_data(2);
        // model correspondence on the tokenizer functions, for both renderings
        for t in [&canon, &noisy] {
            for f in ["steps", "normalize"] {
                g.push(format!("TOK\t{}\t{}", f, crate::wire::escape(t)), &format!("tok-{f}"), true);
            }
        }
        for s in canon.split('|') {
            g.push(format!("TOK\tparams\t{}", crate::wire::escape(s)), "tok-params", true);
        }
        g.push(format!("OP\t{}\t{}\tskelboth\tF\t{}", cf, crate::wire::escape(&noisy), data), "op-noisy", true);
        g.push(
            format!("S_C16\t{}\t{}\t{}\t{}\t{}", cf, crate::wire::escape(&canon), crate::wire::escape(&noisy), if comments { 1 } else { 0 }, data),
            "oracle-layout",
            true,
        );
    }
    // 1a. the spellings of a one-way step inside the body of a macro: sugar, modifier in front, modifier behind - the
    // same macro, as a step of an enclosing pipeline, in both directions
    {
        let bodies = [
            ("s:post", "addone | helmert x=3 omit_inv"), ("s:pre", "addone | omit_inv helmert x=3"), ("s:sugar", "addone > helmert x=3"), ("s:spelled", "addone | helmert x=3 omit_inv=true"),
            ("t:post", "helmert x=3 omit_fwd | addone"), ("t:pre", "omit_fwd helmert x=3 | addone"), ("t:sugar", "< helmert x=3 | addone"), ("t:lines", "helmert x=3 omit_fwd # one way\n| addone"),
        ];
        let res: Vec<(String, String)> = bodies.iter().map(|(n, b)| (n.to_string(), b.to_string())).collect();
        let pts = crate::wire::data_of(&[[1.0, 2.0, 3.0, 4.0], [0.25, -0.5, 10.0, 2020.0]]);
        for (name, _) in bodies {
            let (f_seq, i_seq): (Vec<&str>, Vec<&str>) = if name.starts_with("s:") {
                (vec!["addone", "addone | helmert x=3"], vec!["addone", "addone"])
            } else {
                (vec!["addone", "addone"], vec!["addone", "helmert x=3 | addone"])
            };
            for (inv, outer_f, outer_i) in [(format!("addone | {name}"), f_seq.clone(), i_seq.clone())] {
                for dir in ["F", "I"] {
                    let seq = if dir == "F" { &outer_f } else { &outer_i };
                    let mut f = vec!["S_C04F".to_string(), res.len().to_string()];
                    for (n, b) in &res {
                        f.push(crate::wire::escape(n));
                        f.push(crate::wire::escape(b));
                    }
                    f.push(crate::wire::escape(&inv));
                    f.push(dir.to_string());
                    f.push(seq.len().to_string());
                    for sdef in seq.iter() {
                        f.push(crate::wire::escape(sdef));
                    }
                    f.push(pts.clone());
                    g.push(f.join("\t"), "oracle-one-way-spellings-in-macro-bodies", true);
                    g.push(super::op_line("default", &res, &[], &inv, "apply", dir, &pts), "model-one-way-spellings-in-macro-bodies", true);
                }
            }
        }
    }
    // 1d. a value that is not of the parameter's type is refused with an error that names the parameter - for the
    // indexed spellings of a name as for the plain one (an unknown ellipsoid is refused by the ellipsoid module, whose
    // error names the ellipsoid, not the parameter: refusal is all that is asked for there)
    for (def, key) in [
        ("tmerc lon_0=nine", "lon_0"), ("helmert x=abc", "x"), ("merc lat_ts=1:2:3:4", "lat_ts"), ("lcc lat_1=", "lat_1"), ("laea lat_0=\u{e9}", "lat_0"),
        ("utm zone=thirty", "zone"), ("utm zone=-3", "zone"), ("utm zone=3.5", "zone"), ("helmert translation=1,x,3", "translation"), ("axisswap order=2,q", "order"), ("stack roll=a,b", "roll"),
        ("cart ellps=nonesuch", ""), ("molodensky ellps_0=nonesuch ellps_1=GRS80 dx=1", ""), ("molodensky ellps_0=WGS84 ellps_1=nonesuch dx=1", ""), ("molodensky ellps_1=nonesuch dx=1", ""),
        ("molodensky ellps_0=nonesuch", ""), ("tmerc k_0=half", "k_0"), ("omerc latc=4 lonc=115 alpha=steep", "alpha"),
    ] {
        g.push(format!("S_C16E\t{}\t{}", crate::wire::escape(def), crate::wire::escape(key)), "oracle-error-names-the-parameter", true);
        g.push(super::op_line("default", &[], &[], def, "tree", "F", ""), "model-error-names-the-parameter", true);
    }
    // 1e. whole numbers: exactly the value written (also beyond 2^53, where a float would round), or refused
    for v in [
        "0", "-12", "7", "9007199254740993", "-9007199254740993", "9223372036854775807", "-9223372036854775808", "9223372036854775808", "1e30", "99999999999999999999", "5.0", "1e3", "1.5",
        "4611686018427387905", "18446744073709551615", "18446744073709551616", "0x10", "1_000", "", "-0", "12abc",
    ] {
        for key in ["integer", "natural"] {
            g.push(format!("S_C16I\t{key}\t{}", crate::wire::escape(v)), "oracle-whole-numbers-exactly", true);
        }
    }
    // 1c. the last of repeated keys wins, whatever the spellings of the occurrences (key=value, bare flag, `=true`)
    {
        let data = super::probe_data(2);
        for (a, b) in [
            ("helmert x=1 x=2", "helmert x=2"), ("helmert x=3 x", "helmert x"), ("helmert x x=3", "helmert x=3"), ("helmert x=1 y=2 x=5", "helmert y=2 x=5"),
            ("addone inv=false inv", "addone inv"), ("inv addone inv=false", "addone inv"), ("addone inv inv=false", "addone inv=false"), ("addone inv=true inv=false inv", "addone inv"),
            ("utm zone=32 zone=33", "utm zone=33"), ("cart ellps=intl ellps=GRS80", "cart ellps=GRS80"), ("cart ellps=GRS80 ellps", "cart ellps"), ("helmert exact=false exact rx=1", "helmert exact rx=1"),
            ("addone | helmert x=1 omit_fwd=false omit_fwd", "addone | helmert x=1 omit_fwd"), ("addone | helmert x=1 omit_fwd omit_fwd=false", "addone | helmert x=1"),
            ("helmert translation=1,2,3 translation=4,5,6", "helmert translation=4,5,6"), ("axisswap order=2,1 order=1,2", "axisswap order=1,2"),
            ("latitude geocentric=false geocentric", "latitude geocentric"), ("utm zone=32 south=false south", "utm zone=32 south"), ("utm zone=32 south south=false", "utm zone=32 south=false"),
        ] {
            g.push(format!("S_C16R\t{}\t{}\t{}", crate::wire::escape(a), crate::wire::escape(b), data), "oracle-last-of-repeated-keys", true);
            for d in [a, b] {
                g.push(super::op_line("default", &[], &[], d, "both", "F", &data), "model-last-of-repeated-keys", true);
            }
        }
    }
    // 1b. definitions of one step that are not pipelines (no separator at all), laid out as freely
    for _ in 0..(if thorough { 3000 } else { 300 }) {
        let w: World = make_world(&mut g.rng, 2);
        let mut steps = random_steps(&mut g.rng, &w, 1);
        if g.rng.chance(1, 2) {
            steps = vec![StepSpec::plain("add2 lon_0=9 x_0=500000 k_0=0.9996 lat_0=0")];
        }
        steps[0].omit_fwd = false;
        steps[0].omit_inv = false;
        let (noisy, canon) = noisy_layout(&mut g.rng, &steps, false);
        let (Some(noisy), Some(canon)) = (noisy.strip_suffix(" |"), canon.strip_suffix(" |")) else { continue };
        if noisy.contains('|') || noisy.contains('<') || noisy.contains('>') {
            continue;
        }
        // comments: a line of its own in front, at the end of a line, at the very end (their words are no parameters)
        let noisy = match g.rng.below(5) {
            0 => format!("# a comment x=9 y=8\n{noisy}"),
            1 => format!("{noisy} # x=9 not a parameter"),
            2 => format!("{noisy} # inv omit_fwd\r\n"),
            _ => noisy.to_string(),
        };
        let noisy = noisy.as_str();
        let cf = ctx_fields("default", &w).join("\t");
        let data = super::probe_data(2);
        for t in [canon, noisy] {
            for f in ["steps", "normalize"] {
                g.push(format!("TOK\t{}\t{}", f, crate::wire::escape(t)), &format!("tok-{f}-single"), true);
            }
        }
        g.push(format!("OP\t{}\t{}\tskelboth\tF\t{}", cf, crate::wire::escape(noisy), data), "op-noisy-single", true);
        g.push(format!("S_C16\t{}\t{}\t{}\t0\t{}", cf, crate::wire::escape(canon), crate::wire::escape(noisy), data), "oracle-layout-single", true);
    }
    // 2. typed parameters: every spelling, through a probe operator with one parameter of each type
    for (key, vals) in value_spellings() {
        for v in vals {
            let item = if key == "flag" { format!("flag{v}") } else { format!("{key}={v}") };
            let def = format!("probe {item}");
            g.push(
                super::op_line("default", &[], &[("probe".to_string(), "u:probe".to_string())], &def, "tree", "F", ""),
                &format!("typed-{key}"),
                true,
            );
            // the same as a required parameter without default
            if key != "flag" {
                let def = format!("probe req_{key}={v}");
                g.push(
                    super::op_line("default", &[], &[("probe".to_string(), "u:probereq".to_string())], &def, "tree", "F", ""),
                    &format!("typed-req-{key}"),
                    true,
                );
            }
        }
    }
    sexagesimal_cases(g);
    // every documented parameter of every operator is read (one definition per operator, all its parameters given)
    for def in super::c09::EVERY_PARAMETER {
        g.push(format!("S_C16G\t{}", crate::wire::escape(def)), "oracle-every-parameter-is-read", true);
    }
    // a list of texts holds exactly the elements written, the empty ones at either end included
    for v in ["a,b", "a,b,", ",a", ",", "a,", "a,,b", "", "a", "test.datum,", "@x,y,@null", " a , b "] {
        g.push(format!("S_C16N\t{}", crate::wire::escape(v)), "oracle-text-lists", true);
    }
    // a series with an unparsable or empty element is refused as a whole
    for def in [
        "helmert translation=1,2,x,3", "helmert translation=1,2,,3", "helmert translation=,1,2,3", "helmert translation=1,2,3,", "helmert rotation=1,q,3 convention=position_vector",
        "stack push=1,,2", "stack push=1,x", "axisswap order=2,1,q", "axisswap order=2,,1", "stack roll=2,", "helmert translation=1;2;3", "helmert translation=1,2,3x",
        // (a key with nothing behind the equals sign names no series at all)
        "stack push=", "stack pop=", "axisswap order=", "helmert translation=", "addone | stack push= | addone",
    ] {
        g.push(format!("S_C16E\t{}", crate::wire::escape(def)), "oracle-bad-series", true);
        g.push(super::op_line("default", &[], &[], def, "tree", "F", ""), "typed-bad-series", true);
    }
    // a malformed value of an optional scalar parameter is an error, not the default
    for def in [
        "helmert x=1 y=abc", "helmert x=1 y=2,5", "helmert y=", "helmert x=1 y=2x", "tmerc k_0=0.9996x", "merc lat_ts=56\u{b0}", "merc lon_0=12,5", "merc x_0=1q", "merc y_0=--1",
        "utm zone=32 ellps=GRS80 zone=q", "lcc lat_1=57 lat_2=x", "lcc lat_1=57 lat_0=1:2:3:4", "laea lat_0=5 lon_0=E", "somerc lat_0=47 k_0=one", "helmert t_epoch=now", "deformation dt=soon grids=@null",
        "molodensky dx=1 dy=z ellps_0=intl", "permtide from=mean to=zero k=k", "omerc latc=4 alpha=x", "helmert x=1 s=1_0",
    ] {
        g.push(format!("S_C16E\t{}", crate::wire::escape(def)), "oracle-bad-optional-scalar", true);
        g.push(super::op_line("default", &[], &[], def, "tree", "F", ""), "typed-bad-optional-scalar", true);
    }
    for def in ["probe", "probe real=1 real=2", "probe natural=1 natural=x", "probe unknown=5 other", "probe real=2 unknown=$real", "probe flag flag=false"] {
        g.push(super::op_line("default", &[], &[("probe".to_string(), "u:probe".to_string())], def, "tree", "F", ""), "typed-misc", true);
        g.push(super::op_line("default", &[], &[("probe".to_string(), "u:probereq".to_string())], def, "tree", "F", ""), "typed-misc", true);
    }
    // 3. every f64 literal class through the number parser: random decimal strings
    let nlit = if thorough { 30000 } else { 3000 };
    for _ in 0..nlit {
        let digits = 1 + g.rng.below(25);
        let mut s = String::new();
        if g.rng.chance(1, 4) {
            s.push('-');
        }
        for i in 0..digits {
            if i > 0 && g.rng.chance(1, 8) && !s.contains('.') {
                s.push('.');
            }
            s.push(char::from(b'0' + g.rng.below(10) as u8));
        }
        if g.rng.chance(1, 3) {
            s += &format!("e{}", g.rng.range(-330, 320));
        }
        g.push(
            super::op_line("default", &[], &[("probe".to_string(), "u:probe".to_string())], &format!("probe real={s}"), "tree", "F", ""),
            "typed-real-random",
            true,
        );
    }
}

/// sexagesimal spellings and the values they stand for
pub fn sexagesimal_cases(g: &mut Gen) {
    // the value a sexagesimal spelling stands for, computed here from its fields
    for d in ["0", "-0", "12", "-12", "179", "0.5", "-0.25"] {
        for m in ["", "0", "30", "59.5"] {
            for sec in ["", "0", "36", "59.999"] {
                for hemi in ["", "N", "S", "E", "W", "n", "s", "e", "w"] {
                    if m.is_empty() && !sec.is_empty() {
                        continue;
                    }
                    let mut text = d.to_string();
                    if !m.is_empty() {
                        text += &format!(":{m}");
                    }
                    if !sec.is_empty() {
                        text += &format!(":{sec}");
                    }
                    text += hemi;
                    let dv: f64 = d.trim_start_matches('-').parse().unwrap();
                    let mv: f64 = if m.is_empty() { 0.0 } else { m.parse().unwrap() };
                    let sv: f64 = if sec.is_empty() { 0.0 } else { sec.parse().unwrap() };
                    let neg = d.starts_with('-') != "SsWw".contains(hemi) && !(hemi.is_empty() && !d.starts_with('-'));
                    let neg = if hemi.is_empty() { d.starts_with('-') } else { neg };
                    let mag = dv + (mv + sv / 60.0) / 60.0;
                    let expected = if neg { -mag } else { mag };
                    g.push(format!("S_C16T\t{}\t{}", crate::wire::escape(&text), crate::wire::fbits(expected)), "oracle-sexagesimal", true);
                }
            }
        }
    }
}
