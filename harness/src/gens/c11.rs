//! C11: adapt (all 1920 descriptors, acceptance of all 4096 words), axisswap (all signed partial
//! permutations and the invalid index lists), unitconvert (all unit pairs)
use super::{op_line, Gen};
use crate::wire::data_of;

pub const LETTERS: [char; 8] = ['e', 'n', 'u', 'f', 'w', 's', 'd', 'p'];
pub const SUFFIXES: [&str; 5] = ["", "_rad", "_deg", "_gon", "_any"];

pub fn axis_of(c: char) -> usize {
    match c {
        'e' | 'w' => 0,
        'n' | 's' => 1,
        'u' | 'd' => 2,
        _ => 3,
    }
}

pub fn all_words() -> Vec<String> {
    let mut v = vec![];
    for a in LETTERS {
        for b in LETTERS {
            for c in LETTERS {
                for d in LETTERS {
                    v.push([a, b, c, d].iter().collect::<String>());
                }
            }
        }
    }
    v
}

pub fn is_valid_word(w: &str) -> bool {
    let mut seen = [false; 4];
    for c in w.chars() {
        let a = axis_of(c);
        if seen[a] {
            return false;
        }
        seen[a] = true;
    }
    w.chars().count() == 4
}

pub fn valid_descriptors() -> Vec<String> {
    let mut v = vec![];
    for w in all_words() {
        if is_valid_word(&w) {
            for s in SUFFIXES {
                v.push(format!("{w}{s}"));
            }
        }
    }
    v
}

pub const UNITS: [&str; 24] = [
    "km", "m", "dm", "cm", "mm", "kmi", "in", "ft", "yd", "mi", "fath", "ch", "link", "us-in", "us-ft", "us-yd", "us-ch",
    "us-mi", "ind-yd", "ind-ft", "ind-ch", "rad", "deg", "grad",
];

fn probe() -> String {
    // (a NaN in one place is a number like any other for a reordering: it moves with its axis)
    data_of(&[[2.0, 3.0, 5.0, 7.0], [-11.0, 0.5, 1e6, -0.0], [f64::NAN, 2.0, 3.0, 4.0], [1.0, f64::NAN, 3.0, 4.0], [1.0, 2.0, f64::NAN, f64::INFINITY]])
}

pub fn generate(g: &mut Gen, thorough: bool) {
    let data = probe();
    let descs = valid_descriptors();
    assert_eq!(descs.len(), 1920);
    // every descriptor as `from` and as `to`, both directions; `to=X` against `inv from=X`
    for d in &descs {
        for (def, class) in [(format!("adapt from={d}"), "adapt-from"), (format!("adapt to={d}"), "adapt-to"), (format!("adapt inv from={d}"), "adapt-inv-from")] {
            for dir in ["F", "I"] {
                g.push(op_line("default", &[], &[], &def, "both", dir, &data), class, true);
            }
        }
        g.push(format!("S_C11A\t{d}\tenuf\t{data}"), "oracle-adapt-from", true);
        g.push(format!("S_C11A\tenuf\t{d}\t{data}"), "oracle-adapt-to", true);
    }
    // pairs: exhaustive in the thorough tier (1920 x 1920), a sample otherwise
    if thorough {
        for a in &descs {
            for b in &descs {
                g.push(format!("S_C11A\t{a}\t{b}\t{data}"), "oracle-adapt-pair", true);
            }
        }
        for _ in 0..60000 {
            let a = g.rng.pick(&descs).clone();
            let b = g.rng.pick(&descs).clone();
            let dir = if g.rng.chance(1, 2) { "F" } else { "I" };
            g.push(op_line("default", &[], &[], &format!("adapt from={a} to={b}"), "apply", dir, &data), "adapt-pair", true);
        }
    } else {
        for _ in 0..4000 {
            let a = g.rng.pick(&descs).clone();
            let b = g.rng.pick(&descs).clone();
            let dir = if g.rng.chance(1, 2) { "F" } else { "I" };
            g.push(op_line("default", &[], &[], &format!("adapt from={a} to={b}"), "apply", dir, &data), "adapt-pair", true);
            g.push(format!("S_C11A\t{a}\t{b}\t{data}"), "oracle-adapt-pair", true);
        }
    }
    // acceptance: all 4096 words, with every valid suffix and a set of invalid ones
    let bad_suffixes = ["_foo", "_de", "_degx", "deg", "_DEG", "_", "____", "_ra d", "-deg", "xdeg", "/any", ".rad", "__deg", "_deg_", "\u{e9}deg", "_d\u{e9}g"];
    for w in all_words() {
        let sfx: Vec<&str> = if thorough {
            SUFFIXES.iter().chain(bad_suffixes.iter()).cloned().collect()
        } else {
            vec!["", *g.rng.pick(&SUFFIXES), *g.rng.pick(&bad_suffixes)]
        };
        for s in sfx {
            let d = format!("{w}{s}");
            let expect_ok = is_valid_word(&w) && SUFFIXES.contains(&s);
            g.push(op_line("default", &[], &[], &format!("adapt from={d}"), "skel", "F", ""), "adapt-accept", true);
            g.push(format!("S_C11ACC\t{}\t{}", crate::wire::escape(&d), if expect_ok { 1 } else { 0 }), "oracle-adapt-accept", true);
        }
    }
    for d in ["pass", "", "enu", "enufx", "enuf_degg", "ENUF", "e n u f", "pass_deg", "\u{e9}ab", "enu\u{e9}", "\u{e9}\u{e9}\u{e9}\u{e9}"] {
        g.push(op_line("default", &[], &[], &format!("adapt from={d}"), "skel", "F", ""), "adapt-accept-odd", true);
        g.push(format!("S_C11ACC\t{}\t{}", crate::wire::escape(d), if d == "pass" { 1 } else { 0 }), "oracle-adapt-accept", true);
    }
    // axisswap: all index lists over -5..5 up to length 3 (thorough: 4), plus random longer ones
    let maxlen = if thorough { 4 } else { 3 };
    let mut lists: Vec<Vec<i64>> = vec![vec![]];
    let mut all: Vec<Vec<i64>> = vec![];
    for _ in 0..maxlen {
        let mut next = vec![];
        for l in &lists {
            for v in -5..=5i64 {
                let mut m = l.clone();
                m.push(v);
                next.push(m);
            }
        }
        all.extend(next.iter().cloned());
        lists = next;
    }
    // all signed permutations of 1..4 (384) and a sample of the other lists of length 4 and 5
    let mut perms = vec![];
    for a in 1..=4i64 {
        for b in 1..=4i64 {
            for c in 1..=4i64 {
                for d in 1..=4i64 {
                    let mut seen = [false; 5];
                    let l = [a, b, c, d];
                    if l.iter().all(|x| {
                        let s = seen[*x as usize];
                        seen[*x as usize] = true;
                        !s
                    }) {
                        for signs in 0..16 {
                            perms.push((0..4).map(|i| if signs >> i & 1 == 1 { -l[i] } else { l[i] }).collect::<Vec<i64>>());
                        }
                    }
                }
            }
        }
    }
    all.extend(perms);
    for _ in 0..(if thorough { 20000 } else { 1500 }) {
        let len = 4 + g.rng.below(2);
        all.push((0..len).map(|_| g.rng.range(-5, 5)).collect());
    }
    for l in &all {
        let txt = l.iter().map(|x| x.to_string()).collect::<Vec<_>>().join(",");
        let dir = if g.rng.chance(1, 2) { "F" } else { "I" };
        g.push(op_line("default", &[], &[], &format!("axisswap order={txt}"), "apply", dir, &data), "axisswap", true);
        g.push(format!("S_C11X\t{txt}\t{data}"), "oracle-axisswap", true);
    }
    // the `inv` modifier on each of the three operators exchanges their directions
    for l in all.iter().filter(|l| l.len() <= 4).step_by(if thorough { 1 } else { 7 }) {
        let txt = l.iter().map(|x| x.to_string()).collect::<Vec<_>>().join(",");
        g.push(format!("S_INVMOD\t{}\t{data}", crate::wire::escape(&format!("axisswap order={txt}"))), "oracle-inv-modifier", true);
    }
    for txt in ["2,3,1", "4,1,2,3", "2,-1", "-3,1,2,4", "3,-1,-2"] {
        g.push(format!("S_INVMOD\t{}\t{data}", crate::wire::escape(&format!("axisswap order={txt}"))), "oracle-inv-modifier", true);
        for dir in ["F", "I"] {
            g.push(op_line("default", &[], &[], &format!("axisswap inv order={txt}"), "both", dir, &data), "axisswap-inv-modifier", true);
        }
    }
    for (a, b) in [("km", "m"), ("deg", "rad"), ("ft", "us-ft"), ("grad", "deg")] {
        g.push(format!("S_INVMOD\t{}\t{data}", crate::wire::escape(&format!("unitconvert xy_in={a} xy_out={b}"))), "oracle-inv-modifier", true);
        g.push(format!("S_INVMOD\t{}\t{data}", crate::wire::escape(&format!("unitconvert z_in={a} z_out={b}"))), "oracle-inv-modifier", true);
    }
    for d in descs.iter().step_by(if thorough { 3 } else { 41 }) {
        g.push(format!("S_INVMOD\t{}\t{data}", crate::wire::escape(&format!("adapt from={d}"))), "oracle-inv-modifier", true);
        g.push(format!("S_INVMOD\t{}\t{data}", crate::wire::escape(&format!("adapt to={d} from=neuf_deg"))), "oracle-inv-modifier", true);
    }
    for odd in ["1.5,2", "1,2.0", "1e0,2", "+1,2", "2,1,", ",", "0", "-0,1", "1:0:0,2", "nan", "inf,1", "1,1e300"] {
        g.push(op_line("default", &[], &[], &format!("axisswap order={odd}"), "apply", "F", &data), "axisswap-odd", true);
    }
    // unitconvert: all pairs for xy and for z
    for a in UNITS {
        for b in UNITS {
            for (def, class) in [(format!("unitconvert xy_in={a} xy_out={b}"), "unit-xy"), (format!("unitconvert z_in={a} z_out={b}"), "unit-z")] {
                let dir = if g.rng.chance(1, 2) { "F" } else { "I" };
                g.push(op_line("default", &[], &[], &def, "both", dir, &data), class, true);
            }
            g.push(format!("S_C11U\t{a}\t{b}\t{data}"), "oracle-unit", true);
        }
    }
    for bad in ["kmi ", "KM", "foo", "", "us_ft", "degree"] {
        g.push(op_line("default", &[], &[], &format!("unitconvert xy_in={bad}"), "skel", "F", ""), "unit-bad", true);
    }
}
