//! C07: Helmert parameter sets (3, 6, 7, 14 parameters, both conventions, exact / small angle,
//! rates, epochs, t_obs) and cartesian points
use super::{op_line, Gen};
use crate::rng::Rng;
use crate::wire::data_of;

pub struct HSet {
    pub t: [f64; 3],
    pub r: [f64; 3],
    pub s: f64,
    pub dt: [f64; 3],
    pub dr: [f64; 3],
    pub ds: f64,
    pub pv: bool,
    pub exact: bool,
    pub t_epoch: f64,
    pub t_obs: Option<f64>,
}

fn num(x: f64) -> String {
    format!("{}", x)
}

impl HSet {
    pub fn rotated(&self) -> bool {
        self.r != [0.0; 3] || self.dr != [0.0; 3]
    }
    pub fn dynamic(&self) -> bool {
        self.dt != [0.0; 3] || self.dr != [0.0; 3] || self.ds != 0.0
    }
    /// PROJ-style scalar spelling
    pub fn scalar_def(&self, with_tobs: bool) -> String {
        let mut w = vec!["helmert".to_string()];
        let add = |w: &mut Vec<String>, k: &str, v: f64| {
            if v != 0.0 {
                w.push(format!("{k}={}", num(v)));
            }
        };
        add(&mut w, "x", self.t[0]);
        add(&mut w, "y", self.t[1]);
        add(&mut w, "z", self.t[2]);
        add(&mut w, "rx", self.r[0]);
        add(&mut w, "ry", self.r[1]);
        add(&mut w, "rz", self.r[2]);
        add(&mut w, "s", self.s);
        add(&mut w, "dx", self.dt[0]);
        add(&mut w, "dy", self.dt[1]);
        add(&mut w, "dz", self.dt[2]);
        add(&mut w, "drx", self.dr[0]);
        add(&mut w, "dry", self.dr[1]);
        add(&mut w, "drz", self.dr[2]);
        add(&mut w, "ds", self.ds);
        self.tail(&mut w, with_tobs);
        w.join(" ")
    }
    /// comma separated list spelling
    pub fn list_def(&self, with_tobs: bool) -> String {
        let mut w = vec!["helmert".to_string()];
        let v3 = |v: &[f64; 3]| format!("{},{},{}", num(v[0]), num(v[1]), num(v[2]));
        w.push(format!("translation={}", v3(&self.t)));
        if self.r != [0.0; 3] {
            w.push(format!("rotation={}", v3(&self.r)));
        }
        if self.s != 0.0 {
            w.push(format!("scale={}", num(self.s)));
        }
        if self.dt != [0.0; 3] {
            w.push(format!("velocity={}", v3(&self.dt)));
        }
        if self.dr != [0.0; 3] {
            w.push(format!("angular_velocity={}", v3(&self.dr)));
        }
        if self.ds != 0.0 {
            w.push(format!("scale_trend={}", num(self.ds)));
        }
        self.tail(&mut w, with_tobs);
        w.join(" ")
    }
    fn tail(&self, w: &mut Vec<String>, with_tobs: bool) {
        if self.rotated() {
            w.push(format!("convention={}", if self.pv { "position_vector" } else { "coordinate_frame" }));
        }
        if self.exact {
            w.push("exact".to_string());
        }
        if self.dynamic() {
            w.push(format!("t_epoch={}", num(self.t_epoch)));
            if with_tobs {
                if let Some(t) = self.t_obs {
                    w.push(format!("t_obs={}", num(t)));
                }
            }
        }
    }
    pub fn fields(&self) -> String {
        let v: Vec<f64> = vec![
            self.t[0], self.t[1], self.t[2], self.r[0], self.r[1], self.r[2], self.s, self.dt[0], self.dt[1],
            self.dt[2], self.dr[0], self.dr[1], self.dr[2], self.ds, self.t_epoch, self.t_obs.unwrap_or(f64::NAN),
        ];
        format!(
            "{}{}:{}",
            if self.pv { "P" } else { "C" },
            if self.exact { "E" } else { "S" },
            v.iter().map(|x| crate::wire::fbits(*x)).collect::<Vec<_>>().join(",")
        )
    }
}

fn round3(x: f64) -> f64 {
    (x * 1000.0).round() / 1000.0
}

pub fn random_set(r: &mut Rng) -> HSet {
    let family = r.below(5); // 0: 3 params, 1: 6, 2: 7, 3: 14, 4: 14 with t_obs
    let t = [round3(r.uniform(-1000.0, 1000.0)), round3(r.uniform(-1000.0, 1000.0)), round3(r.uniform(-1000.0, 1000.0))];
    let exact = r.chance(1, 2);
    let amax = if exact && r.chance(1, 3) { 648000.0 } else { 10.0 };
    let rot = [round3(r.uniform(-amax, amax)), round3(r.uniform(-amax, amax)), round3(r.uniform(-amax, amax))];
    let rates = family >= 3;
    HSet {
        t,
        r: if family >= 1 { rot } else { [0.0; 3] },
        s: if family >= 2 { round3(r.uniform(-100.0, 100.0)) } else { 0.0 },
        dt: if rates { [round3(r.uniform(-1.0, 1.0)), round3(r.uniform(-1.0, 1.0)), round3(r.uniform(-1.0, 1.0))] } else { [0.0; 3] },
        dr: if rates { [round3(r.uniform(-0.01, 0.01)), round3(r.uniform(-0.01, 0.01)), round3(r.uniform(-0.01, 0.01))] } else { [0.0; 3] },
        ds: if rates { round3(r.uniform(-0.1, 0.1)) } else { 0.0 },
        pv: r.chance(1, 2),
        exact,
        t_epoch: *r.pick(&[2000.0, 1994.0, 2010.5, 2020.0]),
        t_obs: if family == 4 { Some(*r.pick(&[2000.0, 2005.25, 2017.0, 2030.0])) } else { None },
    }
}

pub fn random_points(r: &mut Rng, n: usize, mixed_epochs: bool) -> Vec<[f64; 4]> {
    let epochs = [2000.0, 2001.0, 2002.0, 2001.0, 2020.5, 1990.0];
    (0..n)
        .map(|i| {
            let e = if mixed_epochs { epochs[r.below(epochs.len())] } else { 2015.0 };
            let _ = i;
            [
                (r.uniform(-1.0e7, 1.0e7) * 1000.0).round() / 1000.0,
                (r.uniform(-1.0e7, 1.0e7) * 1000.0).round() / 1000.0,
                (r.uniform(-1.0e7, 1.0e7) * 1000.0).round() / 1000.0,
                e,
            ]
        })
        .collect()
}

pub fn generate(g: &mut Gen, thorough: bool) {
    let n = if thorough { 20000 } else { 1500 };
    for k in 0..n {
        let mut h = random_set(&mut g.rng);
        // parameter sets whose only rate is one of the seven (a set is dynamic as soon as any rate is not zero), and
        // sets with every static parameter zero but the rates
        if h.dynamic() && k % 5 == 0 {
            let keep = (k / 5) % 7;
            for i in 0..3 {
                if keep != i {
                    h.dt[i] = 0.0;
                }
                if keep != 3 + i {
                    h.dr[i] = 0.0;
                }
            }
            if keep != 6 {
                h.ds = 0.0;
            } else if h.ds == 0.0 {
                h.ds = 0.05;
            }
            if (k / 35) % 2 == 1 {
                h.t = [0.0; 3];
                h.r = [0.0; 3];
                h.s = 0.0;
            }
        }
        let npts = 1 + g.rng.below(6);
        let pts = random_points(&mut g.rng, npts, true);
        let data = data_of(&pts);
        let class = format!(
            "{}-{}-{}{}",
            if !h.rotated() { "3par" } else if !h.dynamic() { "6or7par" } else { "14par" },
            if h.exact { "exact" } else { "small" },
            if h.pv { "pv" } else { "cf" },
            if h.t_obs.is_some() { "-tobs" } else { "" }
        );
        let def = if g.rng.chance(1, 2) { h.scalar_def(true) } else { h.list_def(true) };
        for dir in ["F", "I"] {
            g.push(op_line("default", &[], &[], &def, "both", dir, &data), &class, h.rotated() || h.dynamic());
        }
        g.push(format!("S_C07\t{}\t{}", h.fields(), data), &format!("oracle-{class}"), h.rotated() || h.dynamic());
    }
    // molodensky against the cartesian path it approximates (ellipsoid pairs, shifts up to 300 m,
    // heights -100 .. 5000 m, |lat| <= 80 deg)
    let nm = if thorough { 4000 } else { 400 };
    let ellps = ["GRS80", "intl", "bessel", "clrk66", "WGS84", "krass", "airy"];
    for k in 0..nm {
        // two regimes: large shifts between different ellipsoids (accuracy limited by the second
        // order terms Molodensky leaves out), and small shifts on one ellipsoid at any height
        // (where the formulas are accurate to the millimetre, so that a wrong term shows)
        let small = k % 2 == 1;
        let e0 = *g.rng.pick(&ellps);
        let e1 = if small { e0 } else { *g.rng.pick(&ellps) };
        let abridged = g.rng.chance(1, 2);
        let m = if small { 30.0 } else { 300.0 };
        let mut d = [round3(g.rng.uniform(-m, m)), round3(g.rng.uniform(-m, m)), round3(g.rng.uniform(-m, m))];
        // a change of ellipsoid alone (no translation at all), and translations along one or two axes only
        match k % 16 {
            0 | 8 => d = [0.0, 0.0, 0.0],
            2 => d[0] = 0.0,
            4 => { d[1] = 0.0; d[2] = 0.0 }
            _ => {}
        }
        let hmax = if small && !abridged { 9000.0 } else if small { 0.0 } else { 5000.0 };
        let pts: Vec<[f64; 4]> = (0..8)
            .map(|_| {
                [
                    g.rng.uniform(-180.0, 180.0).to_radians(),
                    g.rng.uniform(-80.0, 80.0).to_radians(),
                    round3(g.rng.uniform(if small { 0.0 } else { -100.0 }, hmax)),
                    0.0,
                ]
            })
            .collect();
        // tolerances: about twice the measured worst case of the unchanged code over the regime
        // (full/large 0.083 m, abridged/large 1.02 m, full/small 0.7 mm, abridged/small at h=0 0.7 mm)
        let tol: f64 = match (small, abridged) {
            (false, false) => 0.16,
            (false, true) => 2.0,
            (true, false) => 0.002,
            (true, true) => 0.002,
        };
        g.push(
            format!(
                "S_C07M\t{}\t{}\t{}\t{}\t{}\t{}\t{}\t{}",
                (if abridged { 1 } else { 0 }) + (if k % 3 == 2 { 2 } else { 0 }),
                e0,
                e1,
                crate::wire::fbits(d[0]),
                crate::wire::fbits(d[1]),
                crate::wire::fbits(d[2]),
                crate::wire::fbits(tol),
                data_of(&pts)
            ),
            &format!("oracle-molodensky-{}-{}{}", if abridged { "abridged" } else { "full" }, if small { "small" } else { "large" }, if k % 3 == 2 { "-by-da-df" } else { "" }),
            true,
        );
        // the same definition on the model, both directions
        if k % 12 == 2 {
            let (l, r) = (geodesy::authoring::Ellipsoid::named(e0).unwrap(), geodesy::authoring::Ellipsoid::named(e1).unwrap());
            use geodesy::authoring::EllipsoidBase;
            let (da, df) = (r.semimajor_axis() - l.semimajor_axis(), r.flattening() - l.flattening());
            let def = format!("molodensky ellps={e0} da={da} df={df} dx={} dy={} dz={}{}", d[0], d[1], d[2], if abridged { " abridged" } else { "" });
            for dir in ["F", "I"] {
                g.push(op_line("default", &[], &[], &def, "apply", dir, &data_of(&pts)), "model-molodensky-by-da-df", true);
            }
        }
        if k % 4 == 0 {
            let def = format!("molodensky ellps_0={e0} ellps_1={e1} dx={} dy={} dz={}{}", d[0], d[1], d[2], if abridged { " abridged" } else { "" });
            for dir in ["F", "I"] {
                g.push(op_line("default", &[], &[], &def, "apply", dir, &data_of(&pts)), "model-molodensky", true);
            }
        }
    }
    // a Helmert step inside a macro whose parameters come from the caller of the macro (the body does not mention
    // them): the same as the step with the parameters written into it, scalars, lists and rates alike
    {
        let res: Vec<(String, String)> = vec![
            ("datum:shift".to_string(), "helmert".to_string()),
            ("datum:via".to_string(), "cart ellps=$left | helmert | cart inv ellps=$right".to_string()),
            ("datum:pv".to_string(), "helmert convention=position_vector".to_string()),
        ];
        let cartesian = data_of(&random_points(&mut g.rng, 4, true));
        let geographic = data_of(&[[0.2, 0.95, 100.0, 2020.0], [-1.3, -0.4, 0.0, 2000.0]]);
        for (inv, seq, pts) in [
            ("datum:shift x=-87 y=-96 z=-120", vec!["helmert x=-87 y=-96 z=-120"], &cartesian),
            ("datum:shift translation=1,2,3 s=0.5", vec!["helmert translation=1,2,3 s=0.5"], &cartesian),
            ("datum:shift x=10 dx=1 t_epoch=2010", vec!["helmert x=10 dx=1 t_epoch=2010"], &cartesian),
            ("datum:pv x=1 rx=0.5 ry=-0.25 rz=2 s=0.1", vec!["helmert convention=position_vector x=1 rx=0.5 ry=-0.25 rz=2 s=0.1"], &cartesian),
            ("datum:pv rotation=1,2,3 drz=0.01 t_epoch=2000", vec!["helmert convention=position_vector rotation=1,2,3 drz=0.01 t_epoch=2000"], &cartesian),
            ("datum:via left=intl right=GRS80 x=-87 y=-96 z=-120", vec!["cart ellps=intl", "helmert x=-87 y=-96 z=-120", "cart inv ellps=GRS80"], &geographic),
            ("addone | datum:shift z=5 inv | addone inv", vec!["addone", "helmert z=5 inv", "addone inv"], &cartesian),
        ] {
            for dir in ["F", "I"] {
                let mut f = vec!["S_C04F".to_string(), res.len().to_string()];
                for (n, b) in &res {
                    f.push(crate::wire::escape(n));
                    f.push(crate::wire::escape(b));
                }
                f.push(crate::wire::escape(inv));
                f.push(dir.to_string());
                f.push(seq.len().to_string());
                for sdef in &seq {
                    f.push(crate::wire::escape(sdef));
                }
                f.push(pts.clone());
                g.push(f.join("\t"), "oracle-helmert-in-a-macro", true);
                g.push(op_line("default", &res, &[], inv, "apply", dir, pts), "model-helmert-in-a-macro", true);
            }
        }
    }
    // constructor errors: missing convention, missing t_epoch, bad list lengths
    for def in [
        "helmert rx=1",
        "helmert rx=1 convention=foo",
        "helmert dx=1",
        "helmert dx=1 t_epoch=2000",
        "helmert translation=1,2",
        "helmert rotation=1,2,3,4 convention=position_vector",
        "helmert velocity=1 t_epoch=2000",
        "helmert x=1 t_obs=2010",
        "helmert ds=1 t_epoch=2000 t_obs=2001 s=1",
        "helmert x=NaN",
        "helmert scale=1 s=3",
    ] {
        let data = data_of(&[[1.0, 2.0, 3.0, 2001.0], [4.0, 5.0, 6.0, 2002.0], [7.0, 8.0, 9.0, 2001.0]]);
        g.push(op_line("default", &[], &[], def, "both", "F", &data), "ctor-edge", true);
    }
    // the two rotation conventions are transposes of each other, also for large angles with `exact`
    for _ in 0..(if thorough { 400 } else { 40 }) {
        let big = g.rng.chance(1, 2);
        let a = |r: &mut Rng| if big { r.uniform(-40000.0, 40000.0) } else { r.uniform(-20.0, 20.0) };
        let (rx, ry, rz) = (a(&mut g.rng), a(&mut g.rng), a(&mut g.rng));
        let exact = if g.rng.chance(3, 4) { " exact" } else { "" };
        let pv = format!("helmert rx={rx} ry={ry} rz={rz}{exact} convention=position_vector");
        let cf = format!("helmert rx={rx} ry={ry} rz={rz}{exact} convention=coordinate_frame");
        let pts = random_points(&mut g.rng, 4, false);
        g.push(format!("S_C07T\t{}\t{}\t{}", crate::wire::escape(&pv), crate::wire::escape(&cf), data_of(&pts)), "oracle-convention-transpose", true);
        g.push(op_line("default", &[], &[], &pv, "apply", "F", &data_of(&pts)), "model-convention", true);
    }
}
