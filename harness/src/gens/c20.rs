//! C20: the kp command line program
use super::Gen;
use crate::rng::Rng;

pub struct KpCase {
    pub inv: bool,
    pub rt: bool,
    pub z: Option<f64>,
    pub t: Option<f64>,
    pub d: Option<usize>,
    pub dim: Option<usize>,
    pub op: String,
    pub files: Vec<Option<String>>,
}

impl KpCase {
    pub fn opts(&self) -> String {
        let f = |o: &Option<f64>| o.map(crate::wire::fbits).unwrap_or("-".to_string());
        let n = |o: &Option<usize>| o.map(|v| v.to_string()).unwrap_or("-".to_string());
        format!("inv={};rt={};z={};t={};d={};D={}", self.inv as u8, self.rt as u8, f(&self.z), f(&self.t), n(&self.d), n(&self.dim))
    }
    pub fn line(&self, kind: &str) -> String {
        let mut f = vec![kind.to_string(), self.opts(), crate::wire::escape(&self.op), self.files.len().to_string()];
        for file in &self.files {
            f.push(match file {
                Some(t) if t == "\u{1}DIRECTORY" => "DIRECTORY".to_string(),
                Some(t) if t.starts_with("\u{1}BROKEN:") => format!("BROKEN:{}", crate::wire::escape(&t["\u{1}BROKEN:".len()..])),
                Some(t) => crate::wire::escape(t),
                None => "UNREADABLE".to_string(),
            });
        }
        f.join("\t")
    }
}

fn random_line(r: &mut Rng) -> String {
    let num = |r: &mut Rng| -> String {
        match r.below(8) {
            0 => format!("{}", r.range(-180, 180)),
            1 => match r.below(4) {
                // (minutes and seconds with fractions, up to but not including the next unit)
                0 => format!("{}:{}:{}.{}{}", r.range(0, 89), r.range(0, 59), r.pick(&[0, 30, 59, 59]), r.pick(&["5", "25", "999", "0"]), r.pick(&["", "N", "S", "E", "W"])),
                1 => format!("{}:{}.{}{}", r.range(0, 89), r.pick(&[0, 30, 59, 59]), r.pick(&["5", "75", "999"]), r.pick(&["", "N", "S", "E", "W"])),
                _ => format!("{}:{}:{}{}", r.range(0, 89), r.range(0, 59), r.range(0, 59), r.pick(&["", "N", "S", "E", "W"])),
            },
            // a negative sexagesimal value, also with zero degrees (less than a degree south or west)
            6 => format!("-{}:{}:{}", r.pick(&[0, 0, 1, 12, 55]), r.range(0, 59), r.range(1, 59)),
            7 => format!("-0:{}", r.range(1, 59)),
            2 => format!("{:.3}{}", r.uniform(-1000.0, 1000.0), r.pick(&["", "", "", "N", "s", "E", "w"])),
            3 => format!("{:e}", r.uniform(-1.0, 1.0)),
            _ => format!("{:.6}", r.uniform(-90.0, 90.0)),
        }
    };
    match r.below(14) {
        0 => String::new(),
        1 => "   ".to_string(),
        2 => "# a comment line".to_string(),
        3 => format!("{} {} # trailing comment", num(r), num(r)),
        4 => format!("  {}\t{}  ", num(r), num(r)),
        5 => num(r),
        6 => format!("{} {} {}", num(r), num(r), num(r)),
        7 => format!("{} {} {} {}", num(r), num(r), num(r), 2000 + r.below(30)),
        8 => format!("{} {} {} {} {} {}", num(r), num(r), num(r), num(r), num(r), num(r)),
        9 => format!("{} abc", num(r)),
        _ => format!("{} {}", num(r), num(r)),
    }
}

pub fn random_case(r: &mut Rng, big: bool) -> KpCase {
    let ops = [
        "addone", "helmert x=10 y=20 z=30", "geo:in | addone | geo:out", "adapt from=neuf_deg", "axisswap order=2,1", "unitconvert xy_in=km",
        "addone | helmert x=1000 | addone inv", "noop", "proj=helmert x=5", "helmert x=1 dx=0.5 t_epoch=2000",
        "stack push=1 | addone | stack pop=2",
    ];
    let nfiles = 1 + r.below(3);
    let mut files = vec![];
    for _ in 0..nfiles {
        let n = if big && r.chance(1, 2) { *r.pick(&[24999usize, 25000, 25001, 50000, 60000]) } else { r.below(12) };
        let eol = *r.pick(&["\n", "\n", "\r\n"]);
        let mut t = String::new();
        for i in 0..n {
            if n > 1000 {
                t += &format!("{} {}", i % 360, (i % 170) as f64 / 2.0);
            } else {
                t += &random_line(r);
            }
            if i + 1 < n || r.chance(3, 4) {
                t += eol;
            }
        }
        files.push(Some(t));
    }
    KpCase {
        inv: r.chance(1, 4),
        rt: r.chance(1, 6),
        z: if r.chance(1, 4) { Some(r.range(-10, 100) as f64) } else { None },
        t: if r.chance(1, 4) { Some(2000.0 + r.below(25) as f64) } else { None },
        d: if r.chance(3, 4) { Some(r.below(12)) } else { None },
        dim: if r.chance(3, 4) { Some(r.below(6)) } else { None },
        op: r.pick(&ops).to_string(),
        files,
    }
}

pub fn generate(g: &mut Gen, thorough: bool) {
    let n = if thorough { 3000 } else { 350 };
    for i in 0..n {
        let big = i % 120 == 7;
        let mut c = random_case(&mut g.rng, big);
        if big {
            // the batch clause speaks of requested decimals and dimension
            c.d = Some(3);
            c.dim = Some(2 + g.rng.below(3));
        }
        let class = format!("{}{}{}", if big { "big-" } else { "" }, if c.rt { "roundtrip" } else if c.inv { "inv" } else { "fwd" }, if c.d.is_some() && c.dim.is_some() { "-requested" } else { "-heuristic" });
        g.push(c.line("KP"), &class, true);
        g.push(c.line("S_C20"), &format!("oracle-{class}"), true);
    }
    // tuples the library cannot transform (outside the domain, outside the grids) among good ones:
    // still one line per coordinate line (oracle only: these operators are not in the model)
    for (op, lines) in [
        ("geo:in | utm zone=32", "55 12\n0 -81\n56 9\n-91 0\n57 10\n"),
        ("geo:in | gridshift grids=test.datum", "55 12\n10 100\n56 11\n"),
        ("geo:in | utm zone=32 | neu:out", "95 12\n55 12\n"),
        // the number of successes is not an index: the first tuple fails, the later ones do not
        ("geo:in | gridshift grids=test.datum", "10 100\n55 12\n56 11\n"),
        // a missing time is NaN, which `cart` does not count (but converts)
        ("geo:in | cart", "55 12\n56 13 100\n57 14 0 2020\n"),
        ("cart", "0.2 0.9 10\n0.3 1 100 2020\n"),
        // a line's numbers do not depend on the lines before it: the pole of a cone after other points, epochs
        // changing from line to line
        ("geo:in | lcc lat_1=33 lat_2=45 lon_0=10", "40 12\n90 10\n45 11\n90 -20\n90:00:00N 3\n"),
        ("geo:in | lcc lat_1=-33 lon_0=10", "-40 12\n-90 10\n-45 11\n"),
        ("geo:in | laea lat_0=90 lon_0=10", "80 12\n90 10\n85 11\n"),
        // ... nor on which grid of a list served the line before
        ("geo:in | gridshift grids=test_subset.datum, test.datum", "55 12\n55.97 11.33\n55.5 12.5\n55.97 11.33\n56.2 11.1\n54.9 9\n55.97 11.33\n"),
        ("geo:in | gridshift grids=test_subset.datum, test.datum | geo:out", "55.97 11.33\n55 12\n55.97 11.33\n"),
        // ... nor on the epoch of the line before (each line has its own time column)
        ("geo:in | cart | deformation t_epoch=2000 grids=test.deformation | cart inv | geo:out", "56 13 10 2020\n56 13 10 2010\n55.5 12 0 2035.5\n56 13 10 2020\n57 14 100 2000\n"),
        // a hemisphere letter goes with plain numbers too
        ("geo:in | utm zone=32", "55.5N 9.25E\n33.5S 9E\n3n 12.75e\n55:30N 12\n"),
        ("addone", "33.5S 9.25W\n3w 4s 5 6\n"),
    ] {
        for rt in [false, true] {
            // (the two test grids of the list disagree on purpose: on the border of the first one the inverse does not
            // converge, which --roundtrip turns into the count mismatch recorded as a known finding - not asked for again)
            if rt && op.contains("test_subset.datum") {
                continue;
            }
            for dim in [2, 4] {
                let c = KpCase { inv: false, rt, z: None, t: None, d: Some(3), dim: Some(dim), op: op.into(), files: vec![Some(lines.into())] };
                g.push(c.line("S_C20"), "oracle-failing-tuples", true);
                if op == "cart" || op == "addone" || op == "geo:in | utm zone=32" {
                    g.push(c.line("KP"), "kp-failing-tuples", true);
                }
            }
        }
    }
    // several files: read in the order given (whatever their names), a file named twice read twice; lines of which
    // nothing can be read are coordinate lines all the same (NaN in, one line out)
    for files in [
        vec!["1 2\n3 4\n", "5 6\n"], vec!["5 6\n", "1 2\n3 4\n", "5 6\n"], vec!["1 2\n", "1 2\n"], vec!["7 8 9\n", "1 2\n", "3 4 5 6\n", "1 2\n"],
        vec!["NaN NaN\n1 2\n", "n/a n/a\n3 4\nx y z\n"], vec!["NaN NaN NaN NaN\n", "1 2\n"], vec!["abc\n1 2\nNaN\n"],
    ] {
        for (d, dim) in [(Some(2), Some(2)), (Some(3), Some(4))] {
            let c = KpCase { inv: false, rt: false, z: None, t: None, d, dim, op: "addone".into(), files: files.iter().map(|f| Some(f.to_string())).collect() };
            g.push(c.line("KP"), "kp-files-in-order", true);
            g.push(c.line("S_C20"), "oracle-files-in-order", true);
        }
    }
    // empty input, unreadable files, invalid operations
    let fixed = [
        KpCase { inv: false, rt: false, z: None, t: None, d: Some(2), dim: Some(2), op: "addone".into(), files: vec![Some(String::new())] },
        KpCase { inv: false, rt: false, z: None, t: None, d: None, dim: None, op: "addone".into(), files: vec![Some("\n\n# only comments\n".into())] },
        KpCase { inv: false, rt: false, z: None, t: None, d: Some(2), dim: Some(2), op: "addone".into(), files: vec![Some("1 2\n".into()), None, Some("3 4\n".into())] },
        KpCase { inv: false, rt: false, z: None, t: None, d: Some(2), dim: Some(2), op: "no_such_operator".into(), files: vec![Some("1 2\n".into())] },
        KpCase { inv: true, rt: false, z: None, t: None, d: Some(2), dim: Some(2), op: "curvature prime".into(), files: vec![Some("1 2\n".into())] },
        // an invalid operation is an error whatever the input holds: nothing, comments only, blank lines
        KpCase { inv: false, rt: false, z: None, t: None, d: Some(2), dim: Some(2), op: "no_such_operator foo=bar".into(), files: vec![Some(String::new())] },
        KpCase { inv: false, rt: false, z: None, t: None, d: None, dim: None, op: "helmert x=not_a_number".into(), files: vec![Some("# only a comment\n\n".into())] },
        KpCase { inv: true, rt: true, z: None, t: None, d: None, dim: None, op: "nosuch:macro".into(), files: vec![Some("\n".into()), Some(String::new())] },
        KpCase { inv: true, rt: true, z: None, t: None, d: Some(3), dim: Some(4), op: "addone".into(), files: vec![Some("1 2 3 4\n5 6 7 8\n".into())] },
        KpCase { inv: false, rt: false, z: Some(5.0), t: Some(2020.0), d: Some(1), dim: Some(4), op: "noop".into(), files: vec![Some("1 2\n3 4 9 1999\n".into())] },
    ];
    // files that open but cannot be read to the end: an error message and a non-zero status
    let unreadable = [
        KpCase { inv: false, rt: false, z: None, t: None, d: Some(2), dim: Some(2), op: "addone".into(), files: vec![Some("\u{1}DIRECTORY".into())] },
        KpCase { inv: false, rt: false, z: None, t: None, d: Some(2), dim: Some(2), op: "addone".into(), files: vec![Some("1 2\n".into()), Some("\u{1}DIRECTORY".into()), Some("3 4\n".into())] },
        KpCase { inv: false, rt: false, z: None, t: None, d: Some(2), dim: Some(2), op: "addone".into(), files: vec![Some("\u{1}BROKEN:1 2\n3 4\n".into())] },
        KpCase { inv: false, rt: false, z: None, t: None, d: Some(2), dim: Some(2), op: "addone".into(), files: vec![Some("\u{1}BROKEN:".into()), Some("5 6\n".into())] },
        KpCase { inv: true, rt: false, z: None, t: None, d: Some(3), dim: None, op: "utm zone=32".into(), files: vec![Some("500000 6000000\n".into()), Some("\u{1}BROKEN:# comment\n\n600000 6100000\n".into())] },
    ];
    // input that fills a whole number of internal batches (25000 lines each), and one line more or less
    for (n, op, rt) in [(25000usize, "addone", false), (50000, "addone", false), (24999, "addone", false), (25001, "addone", false), (25000, "utm zone=32", true),
        // residuals are those of the line itself, also beyond the first batch
        (25003, "utm zone=32", true), (50001, "addone", true)] {
        let text: String = (0..n).map(|i| format!("{} {}\n", 5 + i % 7, 50 + i % 11)).collect();
        let c = KpCase { inv: false, rt, z: None, t: None, d: Some(3), dim: Some(2), op: op.into(), files: vec![Some(text)] };
        g.push(c.line("KP"), "whole-batches", true);
        g.push(c.line("S_C20"), "oracle-whole-batches", true);
    }
    for c in unreadable {
        g.push(c.line("KP"), "unreadable", true);
        g.push(c.line("S_C20"), "oracle-unreadable", true);
    }
    for c in fixed {
        // (the model has no `curvature`: that case is for the oracle only)
        if !c.op.starts_with("curvature") {
            g.push(c.line("KP"), "fixed", true);
        }
        g.push(c.line("S_C20"), "oracle-fixed", true);
    }
}
