//! C09: adversarial definitions and coordinate values; nothing may panic or hang
use super::Gen;
use crate::rng::Rng;
use crate::wire::{escape, fbits};

fn repo() -> String {
    std::env::var("VERIF_REPO").unwrap_or_else(|_| "/repo".to_string())
}

/// operator names from BUILTIN_OPERATORS and, per source file, the gamut keys found in it
pub fn operators() -> (Vec<String>, Vec<String>) {
    let src = std::fs::read_to_string(format!("{}/src/inner_op/mod.rs", repo())).unwrap_or_default();
    let mut names = vec![];
    if let Some(at) = src.find("BUILTIN_OPERATORS") {
        let rest = &src[at..];
        let end = rest.find("];").unwrap_or(rest.len());
        for part in rest[..end].split("(\"").skip(1) {
            if let Some(q) = part.find('"') {
                names.push(part[..q].to_string());
            }
        }
    }
    let mut keys = std::collections::BTreeSet::new();
    if let Ok(rd) = std::fs::read_dir(format!("{}/src/inner_op", repo())) {
        for e in rd.flatten() {
            let text = std::fs::read_to_string(e.path()).unwrap_or_default();
            for part in text.split("key: \"").skip(1) {
                if let Some(q) = part.find('"') {
                    keys.insert(part[..q].to_string());
                }
            }
        }
    }
    (names, keys.into_iter().collect())
}

/// every string literal handed to `.op("…")` anywhere in the source: a corpus of real definitions
pub fn corpus() -> Vec<String> {
    let mut out = std::collections::BTreeSet::new();
    fn walk(dir: &std::path::Path, out: &mut std::collections::BTreeSet<String>) {
        let Ok(rd) = std::fs::read_dir(dir) else { return };
        for e in rd.flatten() {
            let p = e.path();
            if p.is_dir() {
                walk(&p, out);
            } else if p.extension().map(|x| x == "rs").unwrap_or(false) {
                let text = std::fs::read_to_string(&p).unwrap_or_default();
                for part in text.split(".op(\"").skip(1) {
                    if let Some(q) = part.find("\")") {
                        let s = &part[..q];
                        if !s.contains('\\') && s.len() < 300 {
                            out.insert(s.to_string());
                        }
                    }
                }
            }
        }
    }
    walk(std::path::Path::new(&format!("{}/src", repo())), &mut out);
    walk(std::path::Path::new(&format!("{}/examples", repo())), &mut out);
    walk(std::path::Path::new(&format!("{}/tests", repo())), &mut out);
    for d in EVERY_PARAMETER {
        out.insert(d.to_string());
    }
    out.into_iter().collect()
}

/// one definition per operator with every parameter of its gamut given (the definitions in the source
/// that are not literal arguments of `.op(…)` are not found by the walk above)
pub const EVERY_PARAMETER: [&str; 34] = [
    "molodensky ellps_0=WGS84 ellps_1=intl dx=84.87 dy=96.49 dz=116.95",
    "molodensky ellps_0=WGS84 ellps_1=intl dx=84.87 dy=96.49 dz=116.95 abridged",
    "molodensky ellps=WGS84 da=-251 df=-1.41927e-05 dx=84.87 dy=96.49 dz=116.95",
    "tmerc lat_0=49 lon_0=-2 k_0=0.9996012717 x_0=400000 y_0=-100000 ellps=airy",
    "btmerc lat_0=49 lon_0=-2 k_0=0.9996012717 x_0=400000 y_0=-100000 ellps=airy",
    "utm zone=32 south ellps=intl",
    "butm zone=32 south ellps=intl",
    "merc lat_ts=-56 lon_0=9 x_0=-1234.5 y_0=10000000 ellps=intl",
    "merc lat_0=33 lon_0=-75.5 k_0=0.9999 x_0=500000 y_0=777.25 ellps=clrk66",
    "webmerc ellps=WGS84",
    "lcc lat_1=49.5 lat_2=44 lat_0=46.8 lon_0=3 k_0=0.99987742 x_0=700000 y_0=6600000 ellps=intl",
    "omerc latc=4 lonc=115 alpha=53.31582047 gamma_c=53.13010236 k_0=0.99984 x_0=590476.87 y_0=442857.65 ellps=evrstSS",
    "omerc latc=4 lonc=115 alpha=53.31582047 k_0=0.99984 x_0=590476.87 y_0=442857.65 ellps=evrstSS variant",
    "somerc lat_0=46.95240555555556 lon_0=7.439583333333333 k_0=0.9999 x_0=2600000 y_0=1200000 ellps=bessel",
    "laea lat_0=52 lon_0=10 x_0=4321000 y_0=3210000 ellps=GRS80",
    "cart ellps=intl",
    "geodesic ellps=intl reversible",
    "latitude authalic ellps=bessel",
    "latitude geocentric ellps=bessel",
    "curvature azimuthal ellps=intl",
    "curvature gaussian ellps=intl",
    "gravity grs80 ellps=GRS80",
    "permtide from=mean to=free ellps=GRS80 k=0.3",
    "unitconvert xy_in=deg xy_out=rad z_in=ft z_out=m",
    "axisswap order=2,-1,3,4",
    "adapt from=neuf_deg to=enuf_rad",
    "helmert x=10 y=-3 z=2 rx=0.001 ry=0.002 rz=-0.003 s=0.01 dx=0.1 dy=0.2 dz=-0.1 drx=0.0001 dry=0.0002 drz=0.0003 ds=0.001 t_epoch=2010 t_obs=2020 convention=position_vector exact",
    "helmert translation=1,2,3 rotation=1,2,3 velocity=0.1,0.2,0.3 angular_velocity=0.01,0.02,0.03 scale=0.5 scale_trend=0.01 t_epoch=2000 convention=coordinate_frame",
    "gridshift grids=test.datum padding=0.5",
    "deformation dt=10 grids=test.deformation ellps=GRS80 padding=0.5",
    "deformation t_epoch=2000 raw grids=test.deformation ellps=GRS80",
    "deflection grids=test.geoid ellps=GRS80 padding=0.5",
    "stack push=1,2 | addone | stack roll=2,1 | stack pop=2,1",
    "push v_1 v_2 | addone | pop v_2 v_1",
];

const VALUES: [&str; 84] = [
    "", "0", "-0", "1", "-1", "nan", "NaN", "inf", "-inf", "infinity", "1e400", "-1e400", "1e-400", "4.9e-324", "1.7976931348623157e308",
    "90", "-90", "180", "360", "1e9", "0.9996", "500000", "12:30", "12:30:15", "12:30:15N", "55:30W", "-12:30:15.5", "::", ":", "1:2:3:4", "12:60:61", "N", "S",
    "true", "false", "TRUE", "x", "ü", "😀", "$x", "$x(1)", "$", "$(", "(", ")", "*", "^3", "^", "1,2,3", "1,2", ",", ",,", "1,,3", "1,x,3", "1,2,3,4,5,6,7,8",
    "GRS80", "intl", "sphere", "unitsphere", "6378137,298.25", "(6378137, 0)", "0,0", "nosuch", "@null", "@missing.gsb", "missing.gsb", "test.datum", "test.geoid,@null", "5458.gsb",
    "99999999999999999999999999999999999999", "0x10", "1_000",
    // characters whose upper or lower case has another length in bytes or in characters
    "1ß", "2ſ", "3ŉ", "4ǰ", "5ﬁ", "6İ", "7ı", "8\u{212a}", "12:30ß", "9ΐ", "1ẞ", "ſ",
];

/// characters whose case mappings change the length (bytes or characters), or fold onto N S E W
pub const CASE_TRAPS: [char; 14] = ['ß', 'ſ', 'ŉ', 'ǰ', 'ﬁ', 'İ', 'ı', '\u{212a}', 'ΐ', 'ẞ', 'ﬆ', 'ǅ', 'ⓝ', 'ｗ'];

fn value(r: &mut Rng) -> String {
    match r.below(12) {
        0 => format!("{}", r.range(-1000, 1000)),
        1 => format!("{}", r.uniform(-200.0, 200.0)),
        2 => format!("{},{},{}", r.range(-9, 9), r.range(-9, 9), r.range(-9, 9)),
        3 => {
            let n = r.below(40);
            (0..n).map(|_| *r.pick(&['1', '9', '.', '-', ':', ',', 'e', 'N', ' ', 'ß', '€', 'ſ', 'ŉ', 'İ', 'ﬁ'])).collect::<String>().replace(' ', "")
        }
        _ => r.pick(&VALUES).to_string(),
    }
}

fn step(r: &mut Rng, names: &[String], keys: &[String]) -> String {
    let mut parts = vec![];
    if r.chance(1, 6) {
        parts.push("inv".to_string());
    }
    parts.push(if r.chance(1, 15) { value(r) } else { r.pick(names).clone() });
    for _ in 0..r.below(5) {
        let k = if r.chance(1, 12) { value(r) } else { r.pick(keys).clone() };
        match r.below(6) {
            0 => parts.push(k),
            1 => parts.push(format!("{k}=")),
            2 => parts.push(format!("{k} = {}", value(r))),
            _ => parts.push(format!("{k}={}", value(r))),
        }
    }
    if r.chance(1, 8) {
        parts.push(r.pick(&["inv", "omit_fwd", "omit_inv", "inv=true", "inv=false", "omit_fwd=x"]).to_string());
    }
    parts.join(" ")
}

fn mutate(r: &mut Rng, s: &str) -> String {
    let mut cs: Vec<char> = s.chars().collect();
    for _ in 0..(1 + r.below(3)) {
        let n = cs.len();
        match r.below(7) {
            0 if n > 0 => {
                let i = r.below(n);
                cs.remove(i);
            }
            1 => {
                let i = r.below(n + 1);
                cs.insert(i, *r.pick(&['|', '=', ' ', ':', '$', '(', ')', ',', '#', '\n', '\t', '+', '-', '0', 'é', '\u{a0}', '\u{2003}', '\u{0}', '😀', '^', '*', '.']));
            }
            2 if n > 0 => {
                let i = r.below(n);
                cs[i] = *r.pick(&['|', '=', ' ', ':', '$', ',', '9', 'e', '-', 'N', 'ø']);
            }
            3 if n > 1 => {
                let i = r.below(n - 1);
                cs.swap(i, i + 1);
            }
            4 if n > 0 => {
                // duplicate a slice
                let i = r.below(n);
                let len = (1 + r.below(12)).min(n - i);
                let dup: Vec<char> = cs[i..i + len].to_vec();
                let at = r.below(n + 1);
                for (k, c) in dup.into_iter().enumerate() {
                    cs.insert((at + k).min(cs.len()), c);
                }
            }
            5 if n > 0 => {
                // cut at a random point
                let i = r.below(n);
                cs.truncate(i);
            }
            _ => {
                let words: Vec<String> = cs.iter().collect::<String>().split(' ').map(|x| x.to_string()).collect();
                if words.len() > 1 {
                    let mut w = words;
                    let i = r.below(w.len());
                    let j = r.below(w.len());
                    w.swap(i, j);
                    cs = w.join(" ").chars().collect();
                }
            }
        }
    }
    cs.into_iter().collect()
}

const SPECIAL: [f64; 22] = [
    f64::NAN, f64::INFINITY, f64::NEG_INFINITY, 0.0, -0.0, f64::MIN_POSITIVE, 5e-324, -5e-324, f64::MAX, f64::MIN, 1e300, -1e300, 1e18,
    std::f64::consts::FRAC_PI_2, -std::f64::consts::FRAC_PI_2, std::f64::consts::PI, -std::f64::consts::PI, 1.5707963267948968, 3.141592653589794, 6378137.0, 1e-9, 90.0,
];

fn tuple(r: &mut Rng) -> [f64; 4] {
    let mut t = [r.uniform(-3.2, 3.2), r.uniform(-1.6, 1.6), r.uniform(-100.0, 9000.0), r.uniform(1990.0, 2030.0)];
    match r.below(5) {
        0 => {}
        1 => t = [r.uniform(-7e6, 7e6), r.uniform(-7e6, 7e6), r.uniform(-7e6, 7e6), 2020.0],
        2 => t = [r.uniform(-2e5, 9e5), r.uniform(-1e7, 1e7), 0.0, 0.0],
        _ => {}
    }
    for i in 0..4 {
        if r.chance(1, 3) {
            t[i] = *r.pick(&SPECIAL);
        }
    }
    t
}

fn data(r: &mut Rng, n: usize) -> String {
    (0..n).map(|_| tuple(r).iter().map(|v| fbits(*v)).collect::<Vec<_>>().join(",")).collect::<Vec<_>>().join(";")
}

fn resources(r: &mut Rng, names: &[String], keys: &[String]) -> Vec<(String, String)> {
    let mut out = vec![];
    for i in 0..r.below(4) {
        let name = format!("m:r{i}");
        let body = match r.below(6) {
            0 => format!("{name}"),                                       // self reference
            1 => format!("m:r{} x=$x", (i + 1) % 3),                      // cycle among the macros
            2 => format!("{} | {}", step(r, names, keys), step(r, names, keys)),
            3 => format!("{} | m:r{}", step(r, names, keys), r.below(4)),
            4 => format!("addone | {name} inv"),
            _ => step(r, names, keys),
        };
        out.push((name, body));
    }
    out
}

pub fn case(kind: &str, res: &[(String, String)], def: &str, data: &str) -> String {
    let mut f = vec!["S_C09".to_string(), kind.to_string(), res.len().to_string()];
    for (n, b) in res {
        f.push(escape(n));
        f.push(escape(b));
    }
    f.push("0".into());
    f.push(escape(def));
    f.push(data.to_string());
    f.join("\t")
}

pub fn generate(g: &mut Gen, thorough: bool) {
    let (names, keys) = operators();
    let corpus = corpus();
    let scale = if thorough { 10 } else { 1 };
    let kinds = ["default", "plain", "default", "new", "plain-new"];

    // every operator name: bare, with inv, with each adversarial value on each of a few keys
    for name in &names {
        for def in [name.clone(), format!("{name} inv"), format!("inv {name}"), format!("{name} | {name} inv"), format!("{name} omit_fwd | {name} omit_inv")] {
            let d = data(&mut g.rng, 6);
            g.push(case("default", &[], &def, &d), "oracle-bare-operator", true);
        }
        for _ in 0..(6 * scale) {
            let def = format!("{name} {}", (0..1 + g.rng.below(3)).map(|_| format!("{}={}", g.rng.pick(&keys), value(&mut g.rng))).collect::<Vec<_>>().join(" "));
            let d = data(&mut g.rng, 5);
            let kind = *g.rng.pick(&kinds);
            g.push(case(kind, &[], &def, &d), "oracle-operator-adversarial-values", true);
        }
    }
    // every built-in ellipsoid by its name, and names next to them, on operators that read their ellipsoid in
    // different ways (named, triaxial, by pair)
    for (name, _, _) in super::c06::ellipsoid_names() {
        for def in [format!("cart ellps={name}"), format!("tmerc ellps={name} lon_0=9"), format!("molodensky ellps_0={name} ellps_1=GRS80 dx=1"), format!("latitude geocentric ellps={name} "), format!("cart ellps={name}x"), format!("cart ellps={}", name.to_lowercase())] {
            let d = data(&mut g.rng, 3);
            g.push(case("default", &[], &def, &d), "oracle-every-builtin-ellipsoid", true);
        }
        let d = data(&mut g.rng, 3);
        g.push(super::op_line("default", &[], &[], &format!("cart ellps={name}"), "both", "F", &d), "model-every-builtin-ellipsoid", true);
    }
    // recursion through several steps of a body: an error, at once
    {
        let res = vec![("r:two".to_string(), "r:two | r:two".to_string()), ("r:three".to_string(), "addone | r:three | r:three | r:three".to_string())];
        for def in ["r:two", "r:three", "r:two inv | addone"] {
            let d = data(&mut g.rng, 1);
            g.push(case("default", &res, def, &d), "oracle-recursion-from-several-steps", true);
            g.push(case("plain", &res, def, &d), "oracle-recursion-from-several-steps", true);
        }
    }
    // whole-number parameters at and beyond the ends of their ranges (the arithmetic on them is integer arithmetic)
    for v in ["0", "1", "60", "61", "-1", "255", "256", "65535", "65536", "4294967295", "4294967296", "9223372036854775807", "9223372036854775808", "18446744073709551615", "18446744073709551616", "-9223372036854775808", "1e3", "1.0", "00", "+1"] {
        for def in [format!("utm zone={v}"), format!("butm zone={v}"), format!("utm zone={v} south"), format!("addone | utm zone={v}"), format!("stack push=1,2 | stack roll={v},1 | stack pop=1,2"), format!("stack push=1,2 | stack roll=2,{v}"), format!("stack push={v}"), format!("stack pop={v}"), format!("axisswap order={v}"), format!("stack push=1,2,3 | stack unroll=3,{v}"), format!("stack push=1 | stack flip={v}")] {
            let d = data(&mut g.rng, 3);
            g.push(case("default", &[], &def, &d), "oracle-whole-number-ranges", true);
        }
        let d = data(&mut g.rng, 3);
        g.push(case("plain", &[], &format!("+proj=utm +zone={v}"), &d), "oracle-whole-number-ranges", true);
        g.push(super::op_line("default", &[], &[], &format!("utm zone={v}"), "both", "F", &d), "model-whole-number-ranges", true);
    }
    // PROJ syntax with steps that hold nothing, or modifiers only
    for def in [
        "+proj=pipeline +step +inv", "proj=pipeline step proj=utm zone=32 step inv", "inv # ... proj ...", "+proj=pipeline +step", "+proj=pipeline +step +step +proj=addone", "proj=pipeline step inv step proj=addone",
        "+proj=pipeline +inv", "+proj=pipeline +step +omit_fwd", "proj=pipeline step", "proj=pipeline", "+step +inv +proj=pipeline", "proj= inv", "proj=pipeline step inv inv",
    ] {
        let d = data(&mut g.rng, 2);
        g.push(case("plain", &[], def, &d), "oracle-proj-empty-steps", true);
        g.push(format!("PROJ\t{}", escape(def)), "proj-empty-steps", true);
    }
    // ellipsoids of every shape a text can describe: next to a sphere, next to a disc (rf next to 1), beyond it,
    // prolate, tiny, huge, of size zero - on every operator that has an ellipsoid, both directions, ordinary
    // coordinates (the iterations of the inverses are where such shapes bite)
    for shape in [
        "6378137,1.001", "6378137,1.0001", "6378137,1.00001", "6378137,1.0000001", "6378137,1", "6378137,0.9999", "6378137,0.5", "6378137,-300", "6378137,1e-9", "6378137,1e300", "6378137,2",
        "1,1.001", "1e-300,300", "1e300,300", "0,300", "-6378137,300", "6378137,1.5", "6378137,1.01", "6378137,3", "6378137,10",
    ] {
        for head in [
            "merc", "merc lat_ts=56", "webmerc", "tmerc lon_0=9", "utm zone=32", "btmerc lon_0=9", "lcc lat_1=30", "lcc lat_1=33 lat_2=45 lat_0=40", "laea lat_0=52 lon_0=10", "laea lat_0=90", "somerc lat_0=46.95 lon_0=7.44",
            "omerc latc=4 lonc=115 alpha=53.3 gamma_c=53.1", "cart", "latitude geocentric", "latitude conformal", "latitude rectifying", "latitude authalic", "geodesic", "curvature mean", "gravity grs80",
            "molodensky dx=1 dy=2 dz=3 ellps_1=GRS80", "permtide from=mean to=free",
        ] {
            let def = if head.starts_with("molodensky") { format!("{head} ellps_0={shape}") } else { format!("{head} ellps={shape}") };
            let geo = crate::wire::data_of(&[[0.2, 0.9, 10.0, 2020.0], [-1.0, -0.3, 0.0, 2020.0], [0.1, 1.55, 0.0, 0.0]]);
            let plane = crate::wire::data_of(&[[500000.0, 6100000.0, 10.0, 2020.0], [-1.2e6, -3.0e6, 0.0, 2020.0], [0.0, 0.0, 0.0, 0.0], [3.0, 1.0e7, 0.0, 0.0]]);
            g.push(case("default", &[], &def, &geo), "oracle-ellipsoid-shapes", true);
            g.push(case("default", &[], &def, &plane), "oracle-ellipsoid-shapes", true);
        }
        // ... and the public functions of the ellipsoid module on the same shapes, ordinary arguments
        let (a, rf) = shape.split_once(',').unwrap();
        let (a, rf): (f64, f64) = (a.parse().unwrap(), rf.parse().unwrap());
        for args in [[0.9, 0.2, 100.0, 2020.0, 0.5, 1.0e6], [-0.3, 1.5, 0.0, 0.0, -2.0, 5.0e3], [1.2, -1.2, 6.0e6, 1.0, 0.1, 0.2], [3.0, 2.0e7, 1.0e7, 0.5, 3.0, 1.0e7]] {
            let args: Vec<String> = args.iter().map(|v| fbits(*v)).collect();
            g.push(format!("S_C09E\t{}\t{}\t{}", fbits(a), fbits(1.0 / rf), args.join(",")), "oracle-ellipsoid-shapes-functions", true);
        }
    }
    // the operators the model covers: the model predicts handle-or-error, count and values
    let modelled: Vec<String> = std::env::var("VERIF_MODELLED").unwrap_or_default().split(',').filter(|x| !x.is_empty() && names.iter().any(|n| n == x)).map(|x| x.to_string()).collect();
    for name in &modelled {
        if ["stack", "push", "pop"].contains(&name.as_str()) {
            continue; // their semantics is the enclosing pipeline's (C12)
        }
        for _ in 0..(12 * scale) {
            let nk = g.rng.below(4);
            let def = format!("{name} {}", (0..nk).map(|_| format!("{}={}", g.rng.pick(&keys), value(&mut g.rng))).collect::<Vec<_>>().join(" "));
            let def = if g.rng.chance(1, 6) { format!("{def} inv") } else { def };
            let d = data(&mut g.rng, 4);
            let dir = if g.rng.chance(1, 2) { "F" } else { "I" };
            g.push(super::op_line("default", &[], &[], &def, "apply", dir, &d), "model-operator-adversarial", true);
        }
    }
    // the grid operators with every kind of grid list: present, missing, optional, null, none at all
    for opname in [
        "gridshift", "deformation dt=1", "deformation raw t_epoch=2000", "deflection",
        // every further parameter of their gamuts, at extreme values
        "gridshift padding=-5", "gridshift padding=1e300", "deformation dt=1 padding=-5", "deformation dt=1 padding=-1e300", "deformation dt=1 padding=1e300", "deformation dt=-1e300 padding=0",
        "deformation t_epoch=1e300", "deformation dt=0 raw", "deflection padding=-5", "deflection ellps=unitsphere", "gridshift ellps=6378137,0",
    ] {
        for grids in [
            "@missing.gsb", "@missing.gsb,@null", "@null", "@null,test.datum", "missing.gsb", "@missing.datum,@alsomissing.geoid", "test.datum", "test.geoid", "test.deformation",
            "@nosuch.datum,test.datum", "test.datum,@null", "5458.gsb", "5458_with_subgrid.gsb,@null", "test.geoid,@null", "test.deformation,@null", "test.datum,test.geoid", "test.deformation,test.datum", "", ",", "@", "@@null",
        ] {
            for tail in ["", " inv"] {
                for kind in ["plain", "default"] {
                    let def = format!("{opname} grids={grids}{tail}");
                    let d = data(&mut g.rng, 6);
                    g.push(case(kind, &[], &def, &d), "oracle-grid-operators", true);
                    if kind == "plain" {
                        let grids = super::shipped_grids_of(&def);
                        g.push(super::opg_line(&grids, &def, "apply", if tail.is_empty() { "F" } else { "I" }, &d), "model-grid-operators", true);
                    }
                }
            }
        }
    }
    // the grid operators at, just inside and just outside every border of the shipped grids and
    // their sub-grids (the containment tests use tolerances of 1e-6 and half a cell)
    for (grids, borders) in [
        ("5458.gsb", &[(54.0, 58.0, 8.0, 16.0)][..]),
        ("5458_with_subgrid.gsb", &[(54.0, 58.0, 8.0, 16.0), (55.0, 56.0, 12.0, 14.0)][..]),
        ("5458_with_subgrid.gsb,@null", &[(54.0, 58.0, 8.0, 16.0), (55.0, 56.0, 12.0, 14.0)][..]),
        ("@missing.gsb,5458.gsb,@null", &[(54.0, 58.0, 8.0, 16.0)][..]),
        ("test.datum", &[(54.0, 58.0, 8.0, 16.0)][..]),
        ("test.geoid", &[(54.0, 58.0, 8.0, 16.0)][..]),
        ("test_subset.datum,test.datum", &[(54.0, 58.0, 8.0, 16.0), (55.0, 57.0, 10.0, 14.0)][..]),
    ] {
        for dir in ["F", "I"] {
            let mut pts: Vec<[f64; 4]> = vec![];
            for &(s, n, w, e) in borders {
                for off in [0.0, 1e-12, 1e-10, 1e-8, 9e-7, 1.1e-6, 1e-5, 0.0087, 0.0088] {
                    for sign in [-1.0, 1.0] {
                        let o = sign * off;
                        let (mlat, mlon) = (((s + n) / 2.0f64).to_radians(), ((w + e) / 2.0f64).to_radians());
                        pts.push([(w as f64).to_radians() + o, mlat, 0.0, 0.0]);
                        pts.push([(e as f64).to_radians() + o, mlat, 0.0, 0.0]);
                        pts.push([mlon, (s as f64).to_radians() + o, 0.0, 0.0]);
                        pts.push([mlon, (n as f64).to_radians() + o, 0.0, 0.0]);
                        pts.push([(w as f64).to_radians() + o, (s as f64).to_radians() + o, 0.0, 0.0]);
                        pts.push([(e as f64).to_radians() + o, (n as f64).to_radians() - o, 0.0, 0.0]);
                    }
                }
            }
            let def = format!("gridshift grids={grids}");
            let d = crate::wire::data_of(&pts);
            g.push(case("plain", &[], &format!("{def}{}", if dir == "I" { " inv" } else { "" }), &d), "oracle-grid-borders", true);
            g.push(super::opg_line(&super::shipped_grids_of(&def), &def, "apply", dir, &d), "model-grid-borders", true);
        }
    }
    // adapt: every four letter word over the designator alphabet (repeated and missing axes included), with
    // and without a unit suffix
    {
        let letters = ['e', 'n', 'u', 'f', 'w', 's', 'd', 'p'];
        let d = data(&mut g.rng, 2);
        for a in letters {
            for b in letters {
                for c in letters {
                    for e in letters {
                        let w: String = [a, b, c, e].iter().collect();
                        let sfx = *g.rng.pick(&["", "", "_deg", "_gon", "_rad", "_any"]);
                        let def = if g.rng.chance(1, 2) { format!("adapt from={w}{sfx}") } else { format!("adapt to={w}{sfx}") };
                        g.push(case("default", &[], &def, &d), "oracle-adapt-words", true);
                    }
                }
            }
        }
    }
    // the stack operators with every kind of argument list
    for sub in ["push", "pop", "flip", "roll", "unroll"] {
        for args in ["0", "0,0", "-0,0", "1,0", "1,1", "2,1", "2,-1", "2,2", "3,-3", "1,2,3,4", "4,4,4,4", "5", "1,,2", "1,x", "1e30,-1", "9223372036854775807,-1", "-9223372036854775808,1", "1.5,1", "2,1,1", "", "nan,1", "inf,1", "3,0"] {
            for (pre, post) in [("", ""), ("stack push=1,2,3 | ", ""), ("stack push=1 | ", " | stack pop=1"), ("", " | stack drop"), ("stack push=1,2 | stack swap | ", "")] {
                let def = format!("{pre}stack {sub}={args}{post}");
                let d = data(&mut g.rng, 3);
                g.push(case("default", &[], &def, &d), "oracle-stack-arguments", true);
            }
        }
    }
    // every stack instruction at every depth of the stack it may find (empty, one, two, more), in a pipeline
    // that goes on afterwards
    for pre in ["", "stack push=1 | ", "push v_3 | ", "stack push=1,2 | ", "push v_1 v_2 v_3 | "] {
        for ins in ["stack swap", "stack flip=1", "stack flip=1,2", "stack roll=2,1", "stack unroll=2,1", "stack roll=3,-2", "stack pop=1", "stack pop=1,2", "stack pop=1,2,3", "pop v_1", "pop v_1 v_2", "pop v_1 v_2 v_3 v_4", "stack push=1", "push v_4"] {
            for post in ["", " | stack pop=1", " | addone | stack swap | stack pop=2,1", " | pop v_2"] {
                let def = format!("{pre}{ins}{post}");
                let d = data(&mut g.rng, 3);
                g.push(case("default", &[], &def, &d), "oracle-stack-depths", true);
                for dir in ["F", "I"] {
                    g.push(super::op_line("default", &[], &[], &def, "apply", dir, &d), "model-stack-depths", true);
                }
            }
        }
    }
    // every value of the library's own definitions given indirectly: as a default, as a look-up with a
    // default, as a dangling look-up, as the argument of a macro
    for def in &corpus {
        if def.contains('$') || def.contains("proj=") || def.len() > 300 {
            continue;
        }
        let tokens: Vec<&str> = def.split_whitespace().collect();
        for (i, tok) in tokens.iter().enumerate() {
            let Some((k, v)) = tok.split_once('=') else { continue };
            if k.is_empty() || v.is_empty() || k.contains('|') || v.contains('|') || v.starts_with('(') {
                continue;
            }
            for (form, res) in [
                (format!("{k}=({v})"), vec![]),
                (format!("{k}=$nosuch({v})"), vec![]),
                (format!("{k}=$nosuch"), vec![]),
                (format!("{k}=$gv_arg gv_arg={v}"), vec![]),
            ] {
                let mut t: Vec<String> = tokens.iter().map(|x| x.to_string()).collect();
                t[i] = form;
                let d = data(&mut g.rng, 2);
                let kind = if def.contains("grids=") || def.contains(':') { "plain" } else { "default" };
                g.push(case(kind, &res, &t.join(" "), &d), "oracle-indirect-values", true);
            }
            // through a macro: the step text of the body holds `$name`, the value comes from the caller
            if !def.contains('|') && !def.contains(':') {
                let mut t: Vec<String> = tokens.iter().map(|x| x.to_string()).collect();
                t[i] = format!("{k}=$gv_arg");
                let res = vec![("gv:ind".to_string(), t.join(" "))];
                let d = data(&mut g.rng, 2);
                g.push(case("default", &res, &format!("gv:ind gv_arg={v}"), &d), "oracle-indirect-values-macro", true);
                g.push(case("default", &res, "gv:ind", &d), "oracle-indirect-values-macro", true);
            }
        }
    }
    // grid names that lead out of the data directories, to things that are not files (a device that never ends, a
    // directory, nothing at all): an error, at once
    for opname in ["gridshift", "deformation dt=1", "deflection"] {
        for name in ["/dev/zero", "/dev/zero.gsb", "@/dev/zero", "test.datum,/dev/zero", "/dev/null", "/", "..", "../../../../dev/zero", "/proc/self/mem", "/dev/zero,@null", "/tmp"] {
            let def = format!("{opname} grids={name}");
            let d = data(&mut g.rng, 2);
            g.push(case("plain", &[], &def, &d), "oracle-grid-names-that-are-not-files", true);
            g.push(case("default", &[], &def, &d), "oracle-grid-names-that-are-not-files", true);
            if !name.contains('@') && !name.contains("null") && !name.contains("test.datum") {
                g.push(format!("S_C09G\t{}", escape(&def)), "oracle-grid-names-that-are-not-files-clock", true);
            }
        }
    }
    // steps made of modifiers only (nothing to rotate them past): an error, at once
    for def in [
        "inv inv", "inv omit_fwd", "omit_fwd omit_inv", "inv inv inv", "addone > inv", "addone < inv", "addone | inv inv | addone", "inv", "omit_inv", "addone | inv",
        "omit_fwd omit_inv inv | addone", "inv=true inv", "inv inv=true", "addone > omit_fwd inv", "inv inv x=1",
    ] {
        let d = data(&mut g.rng, 2);
        for kind in ["default", "plain"] {
            g.push(case(kind, &[], def, &d), "oracle-modifier-only-steps", true);
        }
        g.push(case("default", &[("m:mods".to_string(), def.to_string())], "addone | m:mods", &d), "oracle-modifier-only-steps", true);
        g.push(super::op_line("default", &[], &[], def, "apply", "F", &d), "model-modifier-only-steps", true);
        for f in ["steps", "normalize", "params"] {
            g.push(format!("TOK\t{}\t{}", f, escape(def)), "tok-modifier-only-steps", true);
        }
    }
    // cyclic parameter references of every length
    for n in 1..6 {
        let names = ["x", "y", "z", "rx", "s"];
        let cyc: Vec<String> = (0..n).map(|i| format!("{}=${}", names[i], names[(i + 1) % n])).collect();
        for def in [format!("helmert {}", cyc.join(" ")), format!("addone | helmert {} | addone", cyc.join(" ")), format!("helmert {} translation=$x", cyc.join(" "))] {
            let d = data(&mut g.rng, 2);
            g.push(case("default", &[], &def, &d), "oracle-cyclic-references", true);
            g.push(super::op_line("default", &[], &[], &def, "apply", "F", &d), "model-cyclic-references", true);
        }
    }
    // the definitions used by the library's own tests and examples, on adversarial coordinates
    for def in &corpus {
        for _ in 0..scale {
            let d = data(&mut g.rng, 8);
            let kind = *g.rng.pick(&["default", "plain"]);
            g.push(case(kind, &[], def, &d), "oracle-corpus-adversarial-coordinates", true);
        }
        for _ in 0..(3 * scale) {
            let m = mutate(&mut g.rng, def);
            let d = data(&mut g.rng, 4);
            let kind = *g.rng.pick(&kinds);
            g.push(case(kind, &[], &m, &d), "oracle-corpus-mutated", true);
        }
    }
    // grammar generated pipelines and macros
    for _ in 0..(400 * scale) {
        let res = resources(&mut g.rng, &names, &keys);
        let n = 1 + g.rng.below(4);
        let mut steps: Vec<String> = (0..n).map(|_| step(&mut g.rng, &names, &keys)).collect();
        if !res.is_empty() && g.rng.chance(1, 2) {
            steps.push(format!("{} {}", res[g.rng.below(res.len())].0, step(&mut g.rng, &names, &keys)));
        }
        let sep = *g.rng.pick(&[" | ", "|", " |\n", " | | "]);
        let mut def = steps.join(sep);
        if g.rng.chance(1, 4) {
            def = mutate(&mut g.rng, &def);
        }
        let d = data(&mut g.rng, 4);
        let kind = *g.rng.pick(&kinds);
        g.push(case(kind, &res, &def, &d), "oracle-grammar", true);
    }
    // PROJ syntax
    for _ in 0..(150 * scale) {
        let n = 1 + g.rng.below(3);
        let mut t = String::new();
        if n > 1 || g.rng.chance(1, 3) {
            t += "+proj=pipeline ";
            if g.rng.chance(1, 4) {
                t += "+inv ";
            }
        }
        for _ in 0..n {
            if t.contains("pipeline") {
                t += "+step ";
            }
            t += &format!("+proj={} ", g.rng.pick(&names));
            for _ in 0..g.rng.below(5) {
                // PROJ's own parameter names (which `tidy_proj` rewrites) among the gamut keys
                let k = if g.rng.chance(1, 2) { g.rng.pick(&["a", "rf", "a", "rf", "k", "ellps", "b", "f", "R", "units", "towgs84", "no_defs", "init", "k_0", "zone"]).to_string() } else { g.rng.pick(&keys).clone() };
                let v = if g.rng.chance(1, 2) { format!("{}", g.rng.range(1, 7000000)) } else { value(&mut g.rng).replace(' ', "") };
                if g.rng.chance(1, 8) {
                    t += &format!("+{k} ");
                } else {
                    t += &format!("+{k}={v} ");
                }
            }
            if g.rng.chance(1, 5) {
                t += "+inv ";
            }
        }
        if g.rng.chance(1, 3) {
            t = mutate(&mut g.rng, &t);
        }
        let d = data(&mut g.rng, 3);
        g.push(case("plain", &[], &t, &d), "oracle-proj-syntax", true);
        g.push(format!("PROJ\t{}", escape(&t)), "proj-translation", true);
    }
    // PROJ ellipsoid spellings in every order and position (rewritten in place by `tidy_proj`)
    for _ in 0..(80 * scale) {
        let mut items: Vec<String> = vec![format!("+proj={}", g.rng.pick(&["merc", "tmerc", "lcc", "utm", "cart", "laea"]))];
        let extras = ["+lat_1=30", "+lon_0=9", "+x_0=100", "+zone=32", "+k=0.9996", "+k_0=2", "+inv", "+lat_0=10"];
        for _ in 0..g.rng.below(4) {
            items.push(g.rng.pick(&extras).to_string());
        }
        let a = format!("+a={}", g.rng.pick(&["6378137", "6377397.155", "1", "x", ""]));
        let rf = format!("+rf={}", g.rng.pick(&["298.257", "299.15", "0", "y", ""]));
        for e in [a, rf] {
            let at = g.rng.below(items.len() + 1);
            items.insert(at, e);
        }
        if g.rng.chance(1, 5) {
            let at = g.rng.below(items.len() + 1);
            items.insert(at, "+ellps=intl".into());
        }
        if g.rng.chance(1, 5) {
            let at = g.rng.below(items.len() + 1);
            items.insert(at, format!("+rf={}", g.rng.range(100, 400)));
        }
        let t = items.join(" ");
        let d = data(&mut g.rng, 3);
        g.push(case("plain", &[], &t, &d), "oracle-proj-ellipsoid-spelling", true);
        g.push(format!("PROJ\t{}", escape(&t)), "proj-ellipsoid-spelling", true);
    }
    // the tokenizer and the angular functions on anything at all: the model says what comes out
    for _ in 0..(500 * scale) {
        let base = if g.rng.chance(1, 2) && !corpus.is_empty() { g.rng.pick(&corpus).clone() } else { step(&mut g.rng, &names, &keys) };
        let s = mutate(&mut g.rng, &base);
        for kind in ["normalize", "steps", "params", "is_pipeline", "is_resource_name", "operator_name"] {
            g.push(format!("TOK\t{kind}\t{}", escape(&s)), &format!("tok-{kind}"), true);
        }
    }
    for _ in 0..(300 * scale) {
        let x = *g.rng.pick(&SPECIAL);
        let y = if g.rng.chance(1, 2) { *g.rng.pick(&SPECIAL) } else { g.rng.uniform(-1e6, 1e6) };
        let z = if g.rng.chance(1, 2) { *g.rng.pick(&SPECIAL) } else { g.rng.uniform(-100.0, 100.0) };
        // degrees are an i32, minutes a u16: their extremes, not beyond
        let d = if g.rng.chance(1, 2) { *g.rng.pick(&[i32::MIN as f64, i32::MAX as f64, 0.0, -0.0, 1.0, -1.0, 180.0, -180.0]) } else { g.rng.range(-400, 400) as f64 };
        g.push(format!("ANG\tdms_to_dd\t{},{},{}", fbits(d), fbits(z.abs().trunc().min(65535.0)), fbits(x)), "ang-dms", true);
        g.push(format!("ANG\tdm_to_dd\t{},{}", fbits(d), fbits(x)), "ang-dm", true);
        for f in ["iso_dm_to_dd", "dd_to_iso_dm", "iso_dms_to_dd", "dd_to_iso_dms", "normalize_symmetric", "normalize_positive"] {
            let v = if g.rng.chance(1, 2) { x } else { y };
            g.push(format!("ANG\t{f}\t{}", fbits(v)), &format!("ang-{f}"), true);
        }
    }
    // every kind of parameter value followed, preceded or interrupted by a character whose case
    // mapping has another length: a value, not a crash
    for c in CASE_TRAPS {
        for (op, key, v) in [("helmert", "x", "1"), ("helmert", "translation", "1,2,3"), ("merc", "lon_0", "12"), ("merc", "lat_ts", "12:30"), ("axisswap", "order", "2,1"), ("utm", "zone", "32"), ("merc", "ellps", "GRS80"), ("stack", "push", "1"), ("adapt", "from", "neuf_deg"), ("unitconvert", "xy_in", "deg")] {
            for text in [format!("{v}{c}"), format!("{c}{v}"), format!("{}{c}{}", &v[..1], &v[1..]), format!("{v}N{c}"), format!("{v}{c}N")] {
                let def = format!("{op} {key}={text}");
                let data = crate::wire::data_of(&[[0.2, 0.9, 10.0, 2000.0]]);
                g.push(super::op_line("default", &[], &[], &def, "apply", "F", &data), "case-trap-values", true);
                g.push(format!("TOK\tparams\t{}", escape(&def)), "tok-params", true);
            }
        }
        g.push(format!("S_C09N\tGRS80{c}"), "oracle-ellipsoid-named", true);
        g.push(format!("S_C09N\t{c}"), "oracle-ellipsoid-named", true);
    }
    // the public functions of the ellipsoid module on arbitrary shapes and arguments
    for _ in 0..(300 * scale) {
        let a = if g.rng.chance(1, 3) { *g.rng.pick(&SPECIAL) } else { g.rng.uniform(1.0, 7e6) };
        let f = match g.rng.below(5) {
            0 => *g.rng.pick(&SPECIAL),
            1 => g.rng.uniform(-1.0, 2.0),
            _ => g.rng.uniform(0.0, 0.01),
        };
        let args: Vec<String> = (0..6).map(|_| fbits(if g.rng.chance(1, 2) { *g.rng.pick(&SPECIAL) } else { g.rng.uniform(-4.0, 4.0) })).collect();
        g.push(format!("S_C09E\t{}\t{}\t{}", fbits(a), fbits(f), args.join(",")), "oracle-ellipsoid-functions", true);
    }
    for v in VALUES {
        g.push(format!("S_C09N\t{}", escape(v)), "oracle-ellipsoid-named", true);
    }
    // texts of one, two, three, four numbers, with and without parentheses, numbers that are not finite
    for v in [
        "6378137", "(6378137)", "NaN", "inf", "-inf", "0", "()", "(", ")", ",", ",,", "6378137,", ",298.25", "6378137,298.25", "(6378137,298.25)", "6378137, 6378000, 298.25",
        "(6378137, 6378000, 298.25)", "1,2,3,4", "(1,2,3,4)", "1,2,3,4,5", "a,b", "a,b,c", "1,b", "1,2,c", "NaN,NaN", "inf,inf,inf", "6378137,0", "0,0", "0,0,0", "1e400,1", " 6378137 ", "((1,2))",
    ] {
        g.push(format!("S_C09N\t{}", escape(v)), "oracle-ellipsoid-named-tuples", true);
    }
    // axis numbers beyond the four there are, in lists of any length
    for order in ["5", "1,5", "2,1,-7", "1e18,1", "9,9,9,9", "-5", "4,3,2,1,5", "1,2,3,5", "255,1", "4294967296,1", "1,2,3,4,5,6,7,8", "1.0e0,2", "2,1,3,4,1"] {
        for tail in ["", " inv"] {
            let def = format!("axisswap order={order}{tail}");
            let d = data(&mut g.rng, 2);
            for kind in ["default", "plain"] {
                g.push(case(kind, &[], &def, &d), "oracle-axisswap-axis-numbers", true);
            }
            g.push(super::op_line("default", &[], &[], &def, "apply", "F", &d), "model-axisswap-axis-numbers", true);
        }
    }
    for _ in 0..(100 * scale) {
        let v = value(&mut g.rng);
        let m = mutate(&mut g.rng, &v);
        g.push(format!("S_C09N\t{}", escape(&m)), "oracle-ellipsoid-named", true);
    }
}
