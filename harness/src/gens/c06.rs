//! C06: the ellipsoid's own geometry
use super::proj;
use super::{op_line, Gen};
use crate::wire::{data_of, fbits};

pub fn ellipsoid_names() -> Vec<(String, String, String)> {
    let root = std::env::var("VERIF_REPO").unwrap_or_else(|_| "/repo".to_string());
    let src = std::fs::read_to_string(format!("{root}/src/ellipsoid/constants.rs")).unwrap_or_default();
    let mut out = vec![];
    if let Some(at) = src.find("ELLIPSOID_LIST") {
        let rest = &src[at..];
        let end = rest.find("];").unwrap_or(rest.len());
        for line in rest[..end].lines() {
            let parts: Vec<&str> = line.split('"').collect();
            if parts.len() >= 8 {
                out.push((parts[1].to_string(), parts[3].to_string(), parts[7].to_string()));
            }
        }
    }
    out
}

pub fn generate(g: &mut Gen, thorough: bool) {
    let rounds = if thorough { 30 } else { 3 };
    // every built-in name, exhaustively: instantiable, published numbers, shape identities
    let names = ellipsoid_names();
    for (name, a, rf) in &names {
        g.push(format!("S_C06\ttable\t{name}\t{a}\t{rf}"), "oracle-table", true);
    }
    g.push(format!("S_C06\tcount\t{}", names.len()), "oracle-table-count", true);
    let mut ells: Vec<String> = names.iter().map(|n| n.0.clone()).collect();
    for _ in 0..(if thorough { 40 } else { 6 }) {
        let rf = g.rng.uniform(150.0, 400.0);
        ells.push(format!("{},{rf}", g.rng.uniform(6.0e6, 6.5e6)));
    }
    for e in &ells {
        g.push(format!("S_C06\trectpole\t{e}\t"), "oracle-rectifying-pole", true);
        for _ in 0..rounds {
            let geo: Vec<[f64; 4]> = (0..6)
                .map(|i| {
                    let lat = match i {
                        0 => std::f64::consts::FRAC_PI_2,
                        1 => -std::f64::consts::FRAC_PI_2,
                        2 => 0.0,
                        _ => g.rng.uniform(-1.57, 1.57),
                    };
                    [g.rng.uniform(-3.14, 3.14), lat, g.rng.uniform(-10000.0, 100000.0), 2000.0]
                })
                .collect();
            g.push(format!("S_C06\tcart\t{e}\t{}", data_of(&geo)), "oracle-geocart", true);
            // (millimetres from a pole, but not on it: a point with a longitude like any other)
            let hp = std::f64::consts::FRAC_PI_2;
            let near: Vec<[f64; 4]> = [1e-12, 1e-11, 1e-10, 5e-10, 9e-10, 2e-9, 1e-8, 1e-6]
                .iter()
                .enumerate()
                .map(|(i, c)| [g.rng.uniform(-3.0, 3.0), (hp - c) * if i % 2 == 0 { 1.0 } else { -1.0 }, [0.0, 100.0, -5000.0, 9.0e4][i % 4], 2000.0])
                .collect();
            g.push(format!("S_C06\tcart\t{e}\t{}", data_of(&near)), "oracle-geocart-next-to-the-poles", true);
            let mut lats: Vec<[f64; 4]> = (0..6).map(|_| [g.rng.uniform(0.01, 1.55), g.rng.uniform(0.01, 1.55), 0.0, 0.0]).collect();
            // the last degree before the pole, where the iterative inverses change regime
            lats.push([g.rng.uniform(1.5533, 1.5570), g.rng.uniform(1.5570, 1.5620), 0.0, 0.0]);
            lats.push([g.rng.uniform(1.5620, 1.5670), g.rng.uniform(1.5670, 1.5700), 0.0, 0.0]);
            g.push(format!("S_C06\tlat\t{e}\t{}", data_of(&lats)), "oracle-latitudes", true);
            let gd: Vec<[f64; 4]> = (0..6).map(|_| [g.rng.uniform(-3.1, 3.1), g.rng.uniform(-1.4, 1.4), g.rng.uniform(-3.14, 3.14), g.rng.uniform(10.0, 1.9e7)]).collect();
            g.push(format!("S_C06\tgeod\t{e}\t{}", data_of(&gd)), "oracle-geodesics", true);
        }
    }
    // spheres: great circles
    for e in ["sphere", "unitsphere"] {
        let gd: Vec<[f64; 4]> = (0..8).map(|_| [g.rng.uniform(-3.1, 3.1), g.rng.uniform(-1.4, 1.4), g.rng.uniform(-3.1, 3.1), g.rng.uniform(-1.4, 1.4)]).collect();
        g.push(format!("S_C06\tgreat\t{e}\t{}", data_of(&gd)), "oracle-great-circles", true);
    }
    // across the antimeridian, along meridians and the equator
    for e in ["GRS80", "intl", "mprts"] {
        let pts = vec![
            [178f64.to_radians(), -17f64.to_radians(), -172f64.to_radians(), -13.8f64.to_radians()],
            [-179.5f64.to_radians(), 60f64.to_radians(), 179.5f64.to_radians(), 61f64.to_radians()],
            [170f64.to_radians(), 0.0, -170f64.to_radians(), 0.0],
            [0.3, 0.0, 0.5, 0.0],
            [0.3, -0.4, 0.3, 0.9],
            [2.0, 1.0, 2.0, -1.2],
        ];
        g.push(format!("S_C06\tspecial\t{e}\t{}", data_of(&pts)), "oracle-geodesic-special-lines", true);
    }
    // every public function of the ellipsoid module, model against implementation: every built-in
    // name (exhaustively) and random shapes x poles, equator, random latitudes, distances, points
    ell_cases(g, &ells, if thorough { 12 } else { 2 });
    // the operators on the same quantities, with the model
    for _ in 0..rounds {
        let ellps = *g.rng.pick(&proj::ELLPS);
        let geo: Vec<[f64; 4]> = (0..6).map(|_| [g.rng.uniform(-3.1, 3.1), g.rng.uniform(-1.5, 1.5), g.rng.uniform(-1e4, 1e5), 0.0]).collect();
        g.push(op_line("default", &[], &[], &format!("cart ellps={ellps}"), "apply", "F", &data_of(&geo)), "model-cart", true);
        for kind in ["geocentric", "reduced", "conformal", "rectifying", "authalic"] {
            g.push(op_line("default", &[], &[], &format!("latitude {kind} ellps={ellps}"), "apply", "F", &data_of(&geo)), "model-latitude", true);
            g.push(op_line("default", &[], &[], &format!("latitude {kind} ellps={ellps}"), "apply", "I", &data_of(&geo)), "model-latitude", true);
        }
        let gi: Vec<[f64; 4]> = (0..6).map(|_| [g.rng.uniform(-70.0, 70.0), g.rng.uniform(-179.0, 179.0), g.rng.uniform(-70.0, 70.0), g.rng.uniform(-179.0, 179.0)]).collect();
        g.push(op_line("default", &[], &[], &format!("geodesic ellps={ellps}"), "apply", "I", &data_of(&gi)), "model-geodesic", true);
        // radii of curvature: the operator against the ellipsoid's meridian and prime vertical radii (Euler's
        // formula at any azimuth, not only along the meridian and the prime vertical)
        let deg: Vec<[f64; 4]> = (0..8).map(|i| [if i == 0 { 0.0 } else { g.rng.uniform(-89.0, 89.0) }, if i < 2 { 45.0 } else { g.rng.uniform(-180.0, 180.0) }, 0.0, 0.0]).collect();
        for kind in ["prime", "meridian", "gaussian", "mean", "azimuthal"] {
            g.push(format!("S_C14	curv	{ellps}	{kind}	{}", data_of(&deg)), "oracle-curvature-operator", true);
            g.push(op_line("default", &[], &[], &format!("curvature {kind} ellps={ellps}"), "apply", "F", &data_of(&deg)), "model-curvature", true);
        }
        let _ = fbits(0.0);
    }
}

pub const ELL_CONSTANTS: [&str; 16] = [
    "semimajor_axis", "flattening", "semiminor_axis", "second_flattening", "third_flattening", "aspect_ratio", "linear_eccentricity", "eccentricity_squared",
    "eccentricity", "second_eccentricity_squared", "second_eccentricity", "polar_radius_of_curvature", "normalized_meridian_arc_unit", "rectifying_radius",
    "rectifying_radius_bowring", "meridian_quadrant",
];
pub const ELL_LATITUDE_FUNCTIONS: [&str; 15] = [
    "prime_vertical_radius_of_curvature", "meridian_radius_of_curvature", "meridian_latitude_to_distance", "latitude_geographic_to_geocentric", "latitude_geocentric_to_geographic",
    "latitude_geographic_to_reduced", "latitude_reduced_to_geographic", "latitude_geographic_to_isometric", "latitude_geographic_to_rectifying", "latitude_rectifying_to_geographic",
    "latitude_geographic_to_conformal", "latitude_conformal_to_geographic", "latitude_geographic_to_authalic", "latitude_authalic_to_geographic", "latitude_isometric_to_geographic",
];

pub fn ell_cases(g: &mut Gen, ells: &[String], rounds: usize) {
    let hp = std::f64::consts::FRAC_PI_2;
    for e in ells {
        let name = crate::wire::escape(e);
        for f in ELL_CONSTANTS {
            g.push(format!("ELL\t{name}\t{f}\t-"), "ell-constants", true);
        }
        let mut lats = vec![0.0, hp, -hp, 1e-9, -0.5, 1.5570, -1.5600, 1.5650, 1.5690, -1.5705];
        for _ in 0..rounds {
            lats.push(g.rng.uniform(-1.57, 1.57));
        }
        for x in &lats {
            for f in ELL_LATITUDE_FUNCTIONS {
                // (the isometric latitude of a pole is infinite: the way back starts from finite values)
                // (an isometric latitude: 5 is 89.2 degrees, 10 is 89.995 degrees, 40 is the pole to machine precision)
                let x = if f == "latitude_isometric_to_geographic" { (x / hp) * (x / hp).abs() * *g.rng.pick(&[3.0, 5.0, 5.5, 7.0, 12.0, 40.0]) } else { *x };
                g.push(format!("ELL\t{name}\t{f}\t{}", fbits(x)), "ell-latitude-functions", true);
            }
            g.push(format!("ELL\t{name}\tmeridian_distance_to_latitude\t{}", fbits(x * 6.3e6)), "ell-latitude-functions", true);
        }
        for _ in 0..rounds {
            let rl = g.rng.uniform(-1.57, 1.57);
            let (lon, lat, h) = (g.rng.uniform(-3.14, 3.14), *g.rng.pick(&[rl, rl, rl, hp, -hp, 0.0]), g.rng.uniform(-1e4, 1e5));
            let args = |v: [f64; 4]| v.iter().map(|x| fbits(*x)).collect::<Vec<_>>().join(",");
            g.push(format!("ELL\t{name}\tcartesian\t{}", args([lon, lat, h, 2000.0])), "ell-cartesian", true);
            let (s, c) = lat.sin_cos();
            let r = 6.37e6 + h;
            g.push(format!("ELL\t{name}\tgeographic\t{}", args([r * c * lon.cos(), r * c * lon.sin(), r * s * 0.9966, 2000.0])), "ell-geographic", true);
            let rd = g.rng.uniform(10.0, 1.9e7);
            let (az, d) = (g.rng.uniform(-3.14, 3.14), *g.rng.pick(&[rd, rd, rd, 0.0, 1.0]));
            g.push(format!("ELL\t{name}\tgeodesic_fwd\t{}", args([lon, lat.clamp(-1.5, 1.5), az, d])), "ell-geodesic-fwd", true);
            let (lon2, lat2) = (g.rng.uniform(-3.14, 3.14), g.rng.uniform(-1.5, 1.5));
            g.push(format!("ELL\t{name}\tgeodesic_inv\t{}", args([lon, lat.clamp(-1.5, 1.5), lon2, lat2])), "ell-geodesic-inv", true);
            g.push(format!("ELL\t{name}\tdistance\t{}", args([lon, lat.clamp(-1.5, 1.5), lon2, lat2])), "ell-distance", true);
        }
        // cartesian points on and next to the rotation axis, on the equator plane, at the centre
        {
            let args = |v: [f64; 4]| v.iter().map(|x| fbits(*x)).collect::<Vec<_>>().join(",");
            for v in [[0.0, 0.0, 6.35e6, 2000.0], [0.0, 0.0, -6.36e6, 0.0], [0.0, 0.0, 6.45e6, 0.0], [1e-13, 0.0, 6.35e6, 0.0], [1e-9, -1e-9, -6.4e6, 0.0], [0.0, 0.0, 1.0, 0.0], [0.0, 0.0, 0.0, 0.0], [6.4e6, 0.0, 0.0, 0.0], [0.0, -6.3e6, 0.0, 0.0], [-0.0, 0.0, -0.0, 0.0]] {
                g.push(format!("ELL\t{name}\tgeographic\t{}", args(v)), "ell-geographic-axis", true);
            }
        }
        // special lines: along a meridian, along the equator, a point onto itself, across the antimeridian
        let args = |v: [f64; 4]| v.iter().map(|x| fbits(*x)).collect::<Vec<_>>().join(",");
        for v in [[0.3, -0.4, 0.3, 0.9], [0.3, 0.0, 0.5, 0.0], [0.2, 0.9, 0.2, 0.9], [3.1, 0.5, -3.1, 0.6], [0.0, hp, 1.0, -hp]] {
            g.push(format!("ELL\t{name}\tgeodesic_inv\t{}", args(v)), "ell-geodesic-special", true);
        }
    }
}
