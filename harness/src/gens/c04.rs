//! C04: macro definitions (DAGs and cycles), every binding form, every lexical order of the
//! parameter names; the expected expansion is computed here from the documented semantics
//! (DESIGN.md A.2) and handed to the oracle together with the invocation.
use super::lang::{render_step, StepSpec};
use super::Gen;
use crate::rng::Rng;
use std::collections::BTreeMap;

#[derive(Clone, Debug)]
pub enum Val {
    Lit(i64),
    Ref(String),
    RefDef(String, i64),
    Def(i64),
}

impl Val {
    pub fn text(&self) -> String {
        match self {
            Val::Lit(v) => v.to_string(),
            Val::Ref(n) => format!("${n}"),
            Val::RefDef(n, d) => format!("${n}({d})"),
            Val::Def(d) => format!("({d})"),
        }
    }
}

#[derive(Clone, Debug)]
pub struct Use {
    /// "helmert", "addone", "add2", or a macro name
    pub name: String,
    pub args: Vec<(String, Val)>,
    pub inv: bool,
}

#[derive(Clone, Debug)]
pub struct MacroDef {
    pub name: String,
    pub steps: Vec<Use>,
    pub pipeline: bool,
}

#[derive(Debug, Clone, PartialEq)]
pub enum Expect {
    /// flat list of concrete steps (text, inverted)
    Steps(Vec<(String, bool)>),
    /// as `Steps`, but so deeply nested that refusing with `Recursion` is legitimate as well
    Deep(Vec<(String, bool)>),
    Syntax,
    Recursion,
}

pub const NAMES: [&str; 10] = ["a", "b", "aa", "k", "p", "x", "y", "z", "zz", "w"];

fn lookup(key: &str, locals: &BTreeMap<String, String>, env: &BTreeMap<String, String>) -> Result<Option<String>, ()> {
    let mut visited_l: Vec<String> = vec![];
    let mut visited_e: Vec<String> = vec![];
    let mut needle = key.to_string();
    let mut default: Option<String> = None;
    let mut chasing = false;
    loop {
        let v = if locals.contains_key(&needle) && !visited_l.contains(&needle) {
            visited_l.push(needle.clone());
            locals[&needle].clone()
        } else if env.contains_key(&needle) && !visited_e.contains(&needle) {
            visited_e.push(needle.clone());
            env[&needle].clone()
        } else {
            if let Some(d) = default {
                return Ok(Some(d));
            }
            if chasing {
                return Err(());
            }
            return Ok(None);
        };
        if let Some(rest) = v.strip_prefix('$') {
            chasing = true;
            if let Some(i) = rest.find('(') {
                default = Some(rest[i + 1..].trim_end_matches(')').to_string());
                needle = rest[..i].to_string();
            } else {
                needle = rest.to_string();
            }
            continue;
        }
        if let Some(rest) = v.strip_prefix('(') {
            chasing = true;
            default = Some(rest.trim_end_matches(')').to_string());
            needle = key.to_string();
            continue;
        }
        return Ok(Some(v));
    }
}

fn gamut_of(name: &str) -> &'static [&'static str] {
    match name {
        "helmert" => &["x", "y", "z"],
        _ => &[],
    }
}

/// the documented meaning of an invocation: its expansion into concrete steps
pub fn expand(u: &Use, defs: &BTreeMap<String, MacroDef>, env: &BTreeMap<String, String>, depth: usize) -> Expect {
    if depth > 60 {
        return Expect::Recursion;
    }
    let locals: BTreeMap<String, String> = u.args.iter().map(|(k, v)| (k.clone(), v.text())).collect();
    if !u.name.contains(':') {
        let mut words = vec![u.name.clone()];
        for k in gamut_of(&u.name) {
            match lookup(k, &locals, env) {
                Err(()) => return Expect::Syntax,
                Ok(Some(v)) => words.push(format!("{k}={v}")),
                Ok(None) => {}
            }
        }
        return Expect::Steps(vec![(words.join(" "), u.inv)]);
    }
    let Some(def) = defs.get(&u.name) else {
        return Expect::Syntax; // not generated
    };
    // arguments are evaluated in the caller's environment (a reference that cannot be resolved
    // there stays dangling and is an error where it is used)
    let mut env2 = env.clone();
    for (k, v) in &locals {
        let this = BTreeMap::from([(k.clone(), v.clone())]);
        let resolved = match lookup(k, &this, env) {
            Ok(Some(r)) => r,
            _ => v.clone(),
        };
        env2.insert(k.clone(), resolved);
    }
    let mut out = vec![];
    for s in &def.steps {
        match expand(s, defs, &env2, depth + 1) {
            Expect::Steps(v) => out.extend(v),
            other => return other,
        }
    }
    if u.inv {
        out.reverse();
        for s in out.iter_mut() {
            s.1 = !s.1;
        }
    }
    Expect::Steps(out)
}

fn random_val(r: &mut Rng, allow_ref: bool) -> Val {
    match if allow_ref { r.below(6) } else { 0 } {
        0 | 1 => Val::Lit(r.range(-9, 9)),
        2 | 3 => Val::Ref(r.pick(&NAMES).to_string()),
        4 => Val::RefDef(r.pick(&NAMES).to_string(), r.range(-9, 9)),
        _ => Val::Def(r.range(-9, 9)),
    }
}

fn random_use(r: &mut Rng, callable: &[String], allow_ref: bool, in_macro: bool) -> Use {
    let pick = r.below(10);
    if pick < 4 || callable.is_empty() {
        let name = *r.pick(&["helmert", "helmert", "helmert", "addone", "add2"]);
        let mut args = vec![];
        if name == "helmert" {
            for k in ["x", "y", "z"] {
                if r.chance(1, 2) {
                    args.push((k.to_string(), random_val(r, allow_ref && in_macro)));
                }
            }
        }
        Use { name: name.to_string(), args, inv: r.chance(1, 4) }
    } else {
        let name = r.pick(callable).clone();
        let nargs = r.below(4);
        let mut args: Vec<(String, Val)> = vec![];
        for _ in 0..nargs {
            let k = r.pick(&NAMES).to_string();
            if args.iter().any(|(kk, _)| *kk == k) {
                continue;
            }
            args.push((k, random_val(r, allow_ref && in_macro)));
        }
        Use { name, args, inv: r.chance(1, 4) }
    }
}

pub fn render_use(r: &mut Rng, u: &Use) -> String {
    let mut core = u.name.clone();
    for (k, v) in &u.args {
        core += &format!(" {}={}", k, v.text());
    }
    let st = StepSpec { core, inv: u.inv, omit_fwd: false, omit_inv: false };
    render_step(r, &st, false).0
}

pub fn render_def(r: &mut Rng, d: &MacroDef) -> String {
    let parts: Vec<String> = d.steps.iter().map(|s| render_use(r, s)).collect();
    if d.pipeline {
        let mut t = parts.join(" | ");
        if parts.len() == 1 {
            t += " |";
        }
        t
    } else {
        parts[0].clone()
    }
}

fn emit(g: &mut Gen, resources: &[(String, String)], def: &str, expect: &Expect, class: &str, nontrivial: bool) {
    let users = vec![("add2".to_string(), "u:add2".to_string())];
    let data = super::probe_data(2);
    for dir in ["F", "I"] {
        g.push(super::op_line("default", resources, &users, def, "both", dir, &data), class, nontrivial);
    }
    let exp = match expect {
        Expect::Syntax => "ERR:Syntax".to_string(),
        Expect::Recursion => "ERR:Recursion".to_string(),
        Expect::Steps(v) | Expect::Deep(v) => {
            let parts: Vec<String> = v.iter().map(|(t, i)| if *i { format!("{t} inv") } else { t.clone() }).collect();
            let mut t = parts.join(" | ");
            if parts.len() < 2 {
                t += " |";
            }
            if matches!(expect, Expect::Deep(_)) {
                t = format!("DEEP:{t}");
            }
            t
        }
    };
    let mut f = vec!["S_C04".to_string(), resources.len().to_string()];
    for (n, b) in resources {
        f.push(crate::wire::escape(n));
        f.push(crate::wire::escape(b));
    }
    f.push(crate::wire::escape(def));
    f.push(crate::wire::escape(&exp));
    f.push(data);
    g.push(f.join("\t"), &format!("oracle-{class}"), nontrivial);
}

/// fixed families: flag-typed arguments reaching a macro's body, macro bodies that start with a
/// stack operator (a nested pipeline is not a stack operator)
fn fixed_families(g: &mut Gen) {
    let res: Vec<(String, String)> = vec![
        ("proj:utm".into(), "utm zone=$zone(32)".into()),
        ("h:x".into(), "helmert x=10 rx=1 ry=2 rz=-3 convention=position_vector".into()),
        ("l:at".into(), "latitude ellps=intl".into()),
        ("outer:utm".into(), "addone | addone inv | proj:utm zone=$z".into()),
        ("c:urv".into(), "curvature ellps=bessel".into()),
        ("foo:baz".into(), "pop v_1 | addone".into()),
        ("foo:psh".into(), "push v_2 | addone | pop v_1".into()),
        ("foo:stk".into(), "stack push=1,2 | addone | stack pop=2,1".into()),
        ("foo:swp".into(), "stack swap | addone".into()),
        ("m:pipe".into(), "addone | helmert x=3".into()),
        ("m:outer".into(), "m:pipe inv | helmert y=1".into()),
        ("m:omits".into(), "helmert x=3 omit_fwd | helmert y=1 omit_inv".into()),
        ("m:molo".into(), "molodensky dx=84.87 dy=96.49 dz=116.95".into()),
        ("m:molo2".into(), "addone | addone inv | m:molo abridged".into()),
    ];
    let geo = "3f c0000000000000".replace(' ', "");
    let _ = geo;
    let pts = crate::wire::data_of(&[[0.2, 0.9, 10.0, 2000.0], [0.25, -0.4, 0.0, 2010.0], [1.0, 2.0, 3.0, 4.0]]);
    let cases: Vec<(&str, Vec<&str>)> = vec![
        ("proj:utm south", vec!["utm zone=32 south"]),
        ("proj:utm zone=33 south", vec!["utm zone=33 south"]),
        ("proj:utm", vec!["utm zone=32"]),
        ("h:x exact", vec!["helmert x=10 rx=1 ry=2 rz=-3 convention=position_vector exact"]),
        ("h:x", vec!["helmert x=10 rx=1 ry=2 rz=-3 convention=position_vector"]),
        ("l:at geocentric", vec!["latitude ellps=intl geocentric"]),
        ("l:at conformal", vec!["latitude ellps=intl conformal"]),
        ("c:urv mean", vec!["curvature ellps=bessel mean"]),
        ("outer:utm z=31 south", vec!["addone", "addone inv", "utm zone=31 south"]),
        ("outer:utm z=31", vec!["addone", "addone inv", "utm zone=31"]),
        ("addone | foo:baz | addone", vec!["addone", "pop v_1 | addone", "addone"]),
        // (the outer push lives in the outer pipeline's stack: kept together with a noop)
        ("push v_1 | foo:baz | addone", vec!["push v_1 | noop", "pop v_1 | addone", "addone"]),
        ("addone | foo:psh", vec!["addone", "push v_2 | addone | pop v_1"]),
        ("addone | foo:stk", vec!["addone", "stack push=1,2 | addone | stack pop=2,1"]),
        ("foo:swp | addone", vec!["stack swap | addone", "addone"]),
    ];
    let mut cases: Vec<(&str, Vec<&str>, Vec<&str>)> = cases.into_iter().map(|(i, s)| (i, s.clone(), s)).collect();
    // an omission on an invocation concerns the invocation as a whole, in the pipeline it is a step of: it is not
    // handed down to the steps of the macro's body (nor to macros nested in it), whatever the direction and
    // whether or not the invocation is inverted as well; outside a pipeline there is nothing to omit it from
    cases.extend(vec![
        ("addone | m:pipe omit_fwd", vec!["addone"], vec!["addone", "addone | helmert x=3"]),
        ("addone | m:pipe omit_inv", vec!["addone", "addone | helmert x=3"], vec!["addone"]),
        ("addone | m:pipe inv omit_fwd", vec!["addone"], vec!["addone", "helmert x=3 inv | addone inv"]),
        ("addone | omit_inv m:pipe inv", vec!["addone", "helmert x=3 inv | addone inv"], vec!["addone"]),
        ("addone | m:outer omit_fwd", vec!["addone"], vec!["addone", "helmert x=3 inv | addone inv | helmert y=1"]),
        ("addone | m:outer inv omit_inv | helmert z=1", vec!["addone", "helmert y=1 inv | addone | helmert x=3", "helmert z=1"], vec!["addone", "helmert z=1"]),
        ("m:pipe omit_fwd", vec!["addone | helmert x=3"], vec!["addone | helmert x=3"]),
        ("m:outer omit_inv", vec!["helmert x=3 inv | addone inv | helmert y=1"], vec!["helmert x=3 inv | addone inv | helmert y=1"]),
        ("m:pipe inv omit_fwd", vec!["helmert x=3 inv | addone inv"], vec!["helmert x=3 inv | addone inv"]),
        ("addone | m:omits", vec!["addone", "helmert y=1"], vec!["addone", "helmert x=3"]),
        ("addone | m:omits inv", vec!["addone", "helmert x=3 inv"], vec!["addone", "helmert y=1 inv"]),
        ("addone | m:omits omit_fwd | helmert z=1", vec!["addone", "helmert z=1"], vec!["addone", "helmert x=3", "helmert z=1"]),
    ]);
    // arguments the body does not mention are visible to its steps all the same: an operator that looks at what it
    // was given (molodensky: `ellps_0` and `ellps_1` together replace `ellps`, `da`, `df`) sees what the caller gave
    for (inv, seq) in [
        ("m:molo ellps_0=WGS84 ellps_1=intl", vec!["molodensky dx=84.87 dy=96.49 dz=116.95 ellps_0=WGS84 ellps_1=intl"]),
        ("m:molo ellps_0=clrk66 ellps_1=airy", vec!["molodensky dx=84.87 dy=96.49 dz=116.95 ellps_0=clrk66 ellps_1=airy"]),
        ("m:molo ellps_1=bessel ellps_0=krass abridged", vec!["molodensky dx=84.87 dy=96.49 dz=116.95 ellps_0=krass ellps_1=bessel abridged"]),
        ("m:molo ellps_0=WGS84", vec!["molodensky dx=84.87 dy=96.49 dz=116.95 ellps_0=WGS84"]),
        ("m:molo ellps=intl da=-251 df=-1.41927e-05", vec!["molodensky dx=84.87 dy=96.49 dz=116.95 ellps=intl da=-251 df=-1.41927e-05"]),
        ("m:molo2 ellps_0=WGS84 ellps_1=intl", vec!["addone", "addone inv", "molodensky dx=84.87 dy=96.49 dz=116.95 ellps_0=WGS84 ellps_1=intl abridged"]),
        ("m:molo inv ellps_1=WGS84 ellps_0=intl", vec!["molodensky dx=84.87 dy=96.49 dz=116.95 ellps_0=intl ellps_1=WGS84 inv"]),
    ] {
        cases.push((inv, seq.clone(), seq));
    }
    for (inv, seq_f, seq_i) in cases {
        for dir in ["F", "I"] {
            let seq = if dir == "F" { &seq_f } else { &seq_i };
            let mut f = vec!["S_C04F".to_string(), res.len().to_string()];
            for (n, b) in &res {
                f.push(crate::wire::escape(n));
                f.push(crate::wire::escape(b));
            }
            f.push(crate::wire::escape(inv));
            f.push(dir.to_string());
            f.push(seq.len().to_string());
            for sdef in seq.iter() {
                f.push(crate::wire::escape(sdef));
            }
            f.push(pts.clone());
            g.push(f.join("\t"), "oracle-fixed-families", true);
            g.push(super::op_line("default", &res, &[], inv, "apply", dir, &pts), "model-fixed-families", true);
        }
    }
}

pub fn generate(g: &mut Gen, thorough: bool) {
    fixed_families(g);
    // macros kept in register files: the body found is that of the name asked for, not of a name beginning alike
    super::c18::register_cases(g, if thorough { 1500 } else { 200 });
    // two fixed cases: an argument referring to a name the invocation itself rebinds
    {
        let res = vec![
            ("m:outer".to_string(), "m:inner a=$a".to_string()),
            ("m:inner".to_string(), "helmert x=$a".to_string()),
        ];
        emit(g, &res, "m:outer a=2", &Expect::Steps(vec![("helmert x=2".to_string(), false)]), "witness-same-name", true);
        let res = vec![
            ("m:outer".to_string(), "m:inner a=7 b=$a".to_string()),
            ("m:inner".to_string(), "helmert x=$b".to_string()),
        ];
        emit(g, &res, "m:outer a=1", &Expect::Steps(vec![("helmert x=1".to_string(), false)]), "witness-shadowed-arg", true);
    }
    // `key=$name` with `name` absent is an error for a parameter of every type, at top level and
    // inside a macro body (an argument that is not given is not replaced by the operator's default)
    {
        let res = vec![
            ("to:cart".to_string(), "cart ellps=$ellps_0 | helmert x=1 | cart inv ellps=$ellps_1".to_string()),
            ("to:utm".to_string(), "utm zone=$zone ellps=$e".to_string()),
            ("to:shift".to_string(), "helmert translation=$t convention=$c".to_string()),
        ];
        for def in [
            "cart ellps=$nosuch", "helmert x=$nosuch", "helmert translation=$nosuch", "utm zone=$nosuch", "helmert convention=$nosuch x=1", "axisswap order=$nosuch",
            "unitconvert xy_in=$nosuch", "adapt from=$nosuch", "addone | cart ellps=$nosuch", "to:cart ellps_0=intl", "to:cart ellps_1=intl", "to:cart", "to:cart ellps0=intl ellps_1=GRS80",
            "to:utm zone=32", "to:utm e=intl", "to:shift t=1,2,3", "to:shift c=position_vector", "addone | to:cart ellps_0=intl | addone",
        ] {
            emit(g, &res, def, &Expect::Syntax, "witness-absent-argument", true);
        }
        emit(g, &res, "to:cart ellps_0=intl ellps_1=GRS80", &Expect::Steps(vec![("cart ellps=intl".to_string(), false), ("helmert x=1".to_string(), false), ("cart ellps=GRS80".to_string(), true)]), "witness-given-arguments", true);
        emit(g, &res, "to:utm zone=32 e=intl", &Expect::Steps(vec![("utm zone=32 ellps=intl".to_string(), false)]), "witness-given-arguments", true);
    }
    // bodies whose steps are made of modifiers only: refused, at once, however deep they sit
    {
        let res = vec![
            ("b:mods".to_string(), "addone < inv".to_string()),
            ("b:two".to_string(), "inv omit_fwd".to_string()),
            ("b:mid".to_string(), "addone | omit_inv omit_fwd | addone".to_string()),
            ("b:nest".to_string(), "addone | b:two inv".to_string()),
        ];
        for def in ["b:mods", "b:two", "b:mid", "b:nest", "b:two inv", "addone | b:mid", "inv inv", "addone | inv omit_inv"] {
            // (value or error in bounded time: the oracle of C09 watches the clock, the model says which error)
            let data = super::probe_data(1);
            g.push(super::c09::case("default", &res, def, &data), "oracle-modifier-only-steps", true);
            g.push(super::op_line("default", &res, &[], def, "both", "F", &data), "witness-modifier-only-steps", true);
        }
    }
    // an inverted invocation is the inverse of the expansion - and refused where the expansion has no inverse (a user's
    // operator without one, here)
    {
        let res = vec![
            ("o:w".to_string(), "oneway3".to_string()),
            ("o:deep".to_string(), "o:w".to_string()),
            ("o:arg".to_string(), "oneway3 k=$k(2)".to_string()),
            ("o:ok".to_string(), "add2".to_string()),
        ];
        let users = vec![("add2".to_string(), "u:add2".to_string()), ("oneway3".to_string(), "u:oneway3".to_string())];
        let data = super::probe_data(2);
        for (a, b) in [
            ("o:w inv", "oneway3 inv"), ("inv o:w", "oneway3 inv"), ("o:deep inv", "oneway3 inv"), ("addone | o:w inv", "addone | oneway3 inv"), ("o:arg inv k=5", "oneway3 k=5 inv"),
            ("o:w", "oneway3"), ("o:ok inv", "add2 inv"), ("addone | o:deep", "addone | oneway3"), ("o:w inv inv", "oneway3 inv inv"),
        ] {
            let mut f = vec!["S_C04E".to_string(), "default".to_string(), res.len().to_string()];
            for (n, body) in &res {
                f.push(crate::wire::escape(n));
                f.push(crate::wire::escape(body));
            }
            f.push(users.len().to_string());
            for (n, t) in &users {
                f.push(crate::wire::escape(n));
                f.push(t.clone());
            }
            f.push(crate::wire::escape(a));
            f.push(crate::wire::escape(b));
            f.push(data.clone());
            g.push(f.join("\t"), "oracle-invocation-and-expansion-refused-alike", true);
            g.push(super::op_line("default", &res, &users, a, "both", "F", &data), "witness-invocation-and-expansion-refused-alike", true);
        }
    }
    // a macro that invokes itself from several steps of its body: refused as fast as one that does so once (the first
    // step that cannot be instantiated ends the instantiation of the pipeline)
    {
        let res = vec![
            ("r:two".to_string(), "r:two | r:two".to_string()),
            ("r:four".to_string(), "addone | r:four | r:four | r:four inv | r:four".to_string()),
            ("r:p".to_string(), "r:q | r:q".to_string()),
            ("r:q".to_string(), "r:p | addone | r:p".to_string()),
        ];
        for def in ["r:two", "r:two inv", "addone | r:two", "r:four", "r:p", "r:q | r:p", "r:two | r:four"] {
            let data = super::probe_data(1);
            g.push(super::c09::case("default", &res, def, &data), "oracle-recursion-from-several-steps", true);
            g.push(super::op_line("default", &res, &[], def, "both", "F", &data), "witness-recursion-from-several-steps", true);
        }
    }
    // the built-in name `pipeline` is a definition that refers to itself: as the body of a macro, as a step of one
    {
        let res = vec![
            ("self:made".to_string(), "pipeline".to_string()),
            ("p:x".to_string(), "pipeline x=$x(1)".to_string()),
            ("p:in".to_string(), "addone | pipeline | addone".to_string()),
            ("p:deep".to_string(), "p:in inv".to_string()),
        ];
        for def in ["self:made", "self:made inv", "p:x x=3", "p:x", "addone | p:in", "p:deep", "addone | p:deep inv | addone", "pipeline", "addone | pipeline", "pipeline inv", "inv pipeline | addone"] {
            let data = super::probe_data(1);
            g.push(super::c09::case("default", &res, def, &data), "oracle-the-name-pipeline", true);
            g.push(super::op_line("default", &res, &[], def, "both", "F", &data), "witness-the-name-pipeline", true);
        }
    }
    // invocations with many arguments, and chains of macros that each add some: however many names are in sight,
    // the caller's value for the one the body asks for is the one it gets
    {
        let res = vec![
            ("w:ref".to_string(), "helmert x=$x".to_string()),
            ("w:def".to_string(), "helmert x=(5)".to_string()),
            ("w:both".to_string(), "helmert x=$x(5) y=$y(1)".to_string()),
        ];
        for width in [10usize, 30, 59, 60, 61, 62, 63, 64, 65, 66, 100, 126, 127, 128, 130] {
            // (the names are kept sorted: names on either side of the one asked for)
            for (at, prefix) in [(0, "u"), (width / 2, "zz"), (width, "zz")] {
                let mut args: Vec<String> = (0..width).map(|k| format!("{prefix}{k}={k}")).collect();
                args.insert(at, "x=9".to_string());
                let args = args.join(" ");
                emit(g, &res, &format!("w:ref {args}"), &Expect::Steps(vec![("helmert x=9".to_string(), false)]), "witness-wide-invocation", true);
                emit(g, &res, &format!("w:def {args}"), &Expect::Steps(vec![("helmert x=9".to_string(), false)]), "witness-wide-invocation", true);
                emit(g, &res, &format!("w:both {args}"), &Expect::Steps(vec![("helmert x=9 y=1".to_string(), false)]), "witness-wide-invocation", true);
            }
        }
        for depth in [4usize, 16, 24, 32, 40] {
            let mut res: Vec<(String, String)> = (0..depth).map(|k| (format!("d:l{k}"), format!("d:l{} x=$x a{k}=1 z{k}=2", k + 1))).collect();
            res.push((format!("d:l{depth}"), "helmert x=$x(5)".to_string()));
            emit(g, &res, "d:l0 x=9", &Expect::Steps(vec![("helmert x=9".to_string(), false)]), "witness-deep-chain", true);
        }
    }
    // an invocation is expanded when it is instantiated, from the body registered then: the same text instantiated
    // again after the macro was registered again is the new body
    super::c18::redefinition_histories(g);
    // an ellipsoid the caller names reaches the body's steps whether or not the body mentions it: a name that is no
    // ellipsoid is refused when the invocation is instantiated, however deep the step sits
    {
        let res = vec![
            ("e:cart".to_string(), "cart".to_string()),
            ("e:pipe".to_string(), "addone | cart | addone inv".to_string()),
            ("e:nest".to_string(), "addone | e:cart inv".to_string()),
            ("e:molo".to_string(), "molodensky dx=1 dy=2 dz=3".to_string()),
            ("e:utm".to_string(), "utm zone=32".to_string()),
            ("e:lat".to_string(), "e:inner geocentric".to_string()),
            ("e:inner".to_string(), "latitude".to_string()),
        ];
        for def in [
            "e:cart ellps=bogus", "e:cart ellps=intl", "e:pipe ellps=nosuch", "e:pipe ellps=bessel", "e:nest ellps=GRS81", "e:nest ellps=6378137,298.3",
            "e:molo ellps_0=bogus ellps_1=intl", "e:molo ellps_0=intl ellps_1=bogus", "e:molo ellps=bogus", "e:utm ellps=bogus", "e:utm ellps=6378137,nan,x",
            "e:lat ellps=bogus", "e:lat ellps=clrk66", "addone | e:cart ellps=bogus | addone", "e:cart ellps=", "e:cart ellps=1,2,3,4",
        ] {
            let data = crate::wire::data_of(&[[0.2, 0.9, 10.0, 2000.0], [1.0, 2.0, 3.0, 4.0]]);
            g.push(super::c09::case("default", &res, def, &data), "oracle-ellipsoid-named-by-the-caller", true);
            for dir in ["F", "I"] {
                g.push(super::op_line("default", &res, &[], def, "both", dir, &data), "witness-ellipsoid-named-by-the-caller", true);
            }
        }
    }
    let n = if thorough { 25000 } else { 2200 };
    for _ in 0..n {
        let nm = 1 + g.rng.below(6);
        let mut defs: BTreeMap<String, MacroDef> = BTreeMap::new();
        let mut names: Vec<String> = vec![];
        for k in 0..nm {
            let name = format!("m:{}{}", g.rng.pick(&["a", "q", "zz"]), k);
            let pipeline = g.rng.chance(1, 2);
            let len = if pipeline { 1 + g.rng.below(3) } else { 1 };
            let steps: Vec<Use> = (0..len).map(|_| random_use(&mut g.rng, &names, true, true)).collect();
            defs.insert(name.clone(), MacroDef { name: name.clone(), steps, pipeline });
            names.push(name);
        }
        let resources: Vec<(String, String)> = defs.values().map(|d| (d.name.clone(), render_def(&mut g.rng, d))).collect();
        // top level: a single invocation, or a pipeline containing invocations
        let top_len = 1 + g.rng.below(3);
        let tops: Vec<Use> = (0..top_len).map(|_| random_use(&mut g.rng, &names, false, false)).collect();
        let env: BTreeMap<String, String> = BTreeMap::from([("ellps".to_string(), "GRS80".to_string())]);
        let mut expect = Expect::Steps(vec![]);
        for t in &tops {
            match (expand(t, &defs, &env, 0), &mut expect) {
                (Expect::Steps(v), Expect::Steps(acc)) => acc.extend(v),
                (other, Expect::Steps(_)) => {
                    expect = other;
                    break;
                }
                _ => break,
            }
        }
        let parts: Vec<String> = tops.iter().map(|t| render_use(&mut g.rng, t)).collect();
        let def = if parts.len() == 1 { parts[0].clone() } else { parts.join(" | ") };
        let uses_macro = tops.iter().any(|t| t.name.contains(':'));
        let class = format!(
            "dag-{}-{}",
            if uses_macro { "macro" } else { "plain" },
            match &expect {
                Expect::Steps(_) | Expect::Deep(_) => "ok",
                Expect::Syntax => "syntax",
                Expect::Recursion => "recursion",
            }
        );
        emit(g, &resources, &def, &expect, &class, uses_macro);
    }
    // cycles of length 1..6, through single-step and pipeline bodies
    let ncyc = if thorough { 600 } else { 120 };
    for _ in 0..ncyc {
        let len = 1 + g.rng.below(6);
        let mut resources = vec![];
        for k in 0..len {
            let next = format!("c:n{}", (k + 1) % len);
            // bodies that point back into the cycle several times: instantiation stops at the first step
            // that fails, which is what keeps the refusal linear in the depth (not 3^depth)
            let body = match g.rng.below(5) {
                0 => next.clone(),
                1 => format!("addone | {next} a=$a(1)"),
                2 => format!("{next} inv | helmert x=1"),
                3 => format!("{next} | addone | {next} | {next}"),
                _ => format!("addone | {next} inv | c:n0 | {next} a=2 | c:n{k}"),
            };
            resources.push((format!("c:n{k}"), body));
        }
        let def = if g.rng.chance(1, 2) { "c:n0".to_string() } else { "addone | c:n0 inv".to_string() };
        emit(g, &resources, &def, &Expect::Recursion, &format!("cycle-len{len}"), true);
    }
    // deep acyclic chains, depth 0..50 (single-step bodies: 2 levels of the counter per macro)
    let depths: Vec<usize> = if thorough { (0..=52).collect() } else { vec![0, 1, 2, 10, 24, 25, 48, 49, 50, 51] };
    for d in depths {
        for pipe in [false, true] {
            let mut resources = vec![];
            for k in 0..d {
                let inner = if k + 1 == d { "helmert x=$v".to_string() } else { format!("d:n{} v=$v", k + 1) };
                let body = if pipe { format!("{inner} | noop") } else { inner };
                resources.push((format!("d:n{k}"), body));
            }
            let def = if d == 0 { "helmert x=4".to_string() } else { "d:n0 v=4".to_string() };
            // cost in recursion levels: see DESIGN.md A.2; beyond the limit a Recursion error is legitimate
            let cost = if pipe { 4 * d } else { 2 * d };
            let expect = if cost > 104 {
                Expect::Recursion
            } else {
                let mut v = vec![("helmert x=4".to_string(), false)];
                if pipe {
                    for _ in 0..d {
                        v.push(("noop".to_string(), false));
                    }
                }
                if cost >= 92 {
                    Expect::Deep(v)
                } else {
                    Expect::Steps(v)
                }
            };
            emit(g, &resources, &def, &expect, &format!("chain-{}-d{}", if pipe { "pipe" } else { "single" }, d), d > 0);
        }
    }
}
