//! C13: pairs of differently parameterised instances of the same projection
use super::proj::{self, ProjDef};
use super::{op_line, Gen};
use crate::wire::{data_of, escape, fbits};

fn pair(g: &mut Gen, kind: &str, a: &str, b: &str, extra: &[f64], pts: &[[f64; 4]], class: &str) {
    let ex: Vec<String> = extra.iter().map(|v| fbits(*v)).collect();
    g.push(format!("S_C13\t{kind}\t{}\t{}\t{}\t{}", escape(a), escape(b), ex.join(","), data_of(pts)), class, true);
}

pub fn generate(g: &mut Gen, thorough: bool) {
    let rounds = if thorough { 60 } else { 8 };
    for name in proj::PROJECTIONS {
        for _ in 0..rounds {
            let d: ProjDef = proj::random(&mut g.rng, name);
            let mut pts = proj::points(&mut g.rng, &d, 8);
            if name == "lcc" {
                // the pole on the side of the cone's apex is a point of the domain like any other
                let pole = std::f64::consts::FRAC_PI_2.copysign(d.centre.1);
                pts.push([d.lon_0.to_radians() + 0.3, pole, 0.0, 0.0]);
                pts.push([d.lon_0.to_radians(), pole - 1e-11f64.copysign(pole), 5.0, 2000.0]);
            }
            let def = d.def();
            // the model on the same definition, both directions
            g.push(op_line("default", &[], &[], &def, "apply", "F", &data_of(&pts)), &format!("model-{name}-fwd"), true);
            let planar: Vec<[f64; 4]> = pts.iter().map(|p| [d.x_0 + (p[0] - d.lon_0.to_radians()) * 3.0e6, d.y_0 + p[1] * 6.0e6, p[2], p[3]]).collect();
            g.push(op_line("default", &[], &[], &def, "apply", "I", &data_of(&planar)), &format!("model-{name}-inv"), true);
            // the conventions, on the implementation
            if d.has_xy {
                pair(g, "origin", &def, &d.def_with(&d.ellps, d.lon_0, d.k_0, 0.0, 0.0), &[d.x_0, d.y_0], &pts, &format!("oracle-origin-{name}"));
            }
            if d.has_lon0 {
                pair(g, "lon0", &def, &d.def_with(&d.ellps, 0.0, d.k_0, d.x_0, d.y_0), &[d.lon_0], &pts, &format!("oracle-lon0-{name}"));
            }
            if d.has_k0 {
                pair(g, "k0", &d.def_with(&d.ellps, d.lon_0, d.k_0, 0.0, 0.0), &d.def_with(&d.ellps, d.lon_0, 1.0, 0.0, 0.0), &[d.k_0], &pts, &format!("oracle-k0-{name}"));
            }
            // the size of the ellipsoid
            {
                let (a, rf) = (6378137.0, *g.rng.pick(&[298.257, 300.0, 150.0]));
                let s = *g.rng.pick(&[2.0, 0.5, 1.0 / 6378137.0, 1.25]);
                let e1 = format!("{a},{rf}");
                let e2 = format!("{},{rf}", a * s);
                pair(g, "size", &d.def_with(&e2, d.lon_0, d.k_0, 0.0, 0.0), &d.def_with(&e1, d.lon_0, d.k_0, 0.0, 0.0), &[s, if d.has_xy || name == "webmerc" { 0.0 } else { 1.0 }, d.x_0, d.y_0], &pts, &format!("oracle-size-{name}"));
            }
        }
    }
    // central meridians (and centres) given beyond a half turn: for the projections that are not periodic in the
    // longitude too (omerc, btmerc), `lon_0 = L` is the operator with `lon_0 = 0` fed with longitudes less `L`
    for (name, shape) in [("omerc", "latc=36 alpha=30 gamma_c=30"), ("omerc", "latc=-20 alpha=53.3 gamma_c=53.1 variant"), ("btmerc", "k_0=0.9996"), ("tmerc", "k_0=0.9996"), ("lcc", "lat_1=33 lat_2=45"), ("somerc", "lat_0=46.95")] {
        for l in [190.0, 359.0, -200.5, 181.0, 177.0] {
            let key = if name == "omerc" { "lonc" } else { "lon_0" };
            let (a, b) = (format!("{name} {shape} {key}={l}"), format!("{name} {shape} {key}=0"));
            let pts: Vec<[f64; 4]> = [-3.0f64, -1.0, 0.5, 2.5].iter().map(|d| [(l + d).to_radians(), (if shape.contains("latc=-20") { -20.0f64 } else { 40.0f64 } + d).to_radians(), 0.0, 0.0]).collect();
            pair(g, "lon0", &a, &b, &[l], &pts, "oracle-lon0-beyond-a-half-turn");
            g.push(op_line("default", &[], &[], &a, "apply", "F", &data_of(&pts)), "model-lon0-beyond-a-half-turn", true);
        }
    }
    // operators that do not declare lon_0 (webmerc; utm and butm have their zone): given all the same, it is ignored —
    // or, should it be accepted one day, it means what it means everywhere
    for (def, lon_0) in [("webmerc", 10.0), ("webmerc ellps=intl", -75.5), ("utm zone=32", 3.0), ("butm zone=33", 9.0)] {
        let d = proj::random(&mut g.rng, "merc");
        let centred = ProjDef { centre: (if def.contains("zone=32") { 9.0 } else if def.contains("zone=33") { 15.0 } else { 0.0 }, 30.0), extent: (2.5, 50.0), ..d };
        let pts = proj::points(&mut g.rng, &centred, 6);
        pair(g, "lon0opt", &format!("{def} lon_0={lon_0}"), def, &[lon_0], &pts, "oracle-lon0-undeclared");
        g.push(op_line("default", &[], &[], &format!("{def} lon_0={lon_0}"), "apply", "F", &data_of(&pts)), "model-lon0-undeclared", true);
    }
    // angular parameters written with minutes and seconds, between -1 and 0 degrees (the sign sits on a zero)
    for name in proj::PROJECTIONS {
        let d: ProjDef = proj::random(&mut g.rng, name);
        if !d.has_lon0 {
            continue;
        }
        let centred = ProjDef { centre: (0.0, d.centre.1), ..d.clone() };
        let pts = proj::points(&mut g.rng, &centred, 6);
        let zero = d.def_with(&d.ellps, 0.0, d.k_0, d.x_0, d.y_0);
        let key = if name == "omerc" { "lonc" } else { "lon_0" };
        for (spelling, degrees) in [("-0:30", -0.5), ("-0:00:36", -0.01), ("0:30W", -0.5), ("-0.5", -0.5), ("0:30", 0.5), ("-0:30E", -0.5)] {
            let a = zero.replacen(&format!("{key}=0"), &format!("{key}={spelling}"), 1);
            pair(g, "lon0", &a, &zero, &[degrees], &pts, &format!("oracle-lon0-sexagesimal-{name}"));
            g.push(op_line("default", &[], &[], &a, "apply", "F", &data_of(&pts)), "model-lon0-sexagesimal", true);
        }
    }
    // laea in its polar and equatorial aspects, the projection centre among the points
    for lat_0 in [90.0, -90.0, 0.0] {
        for _ in 0..(rounds / 4).max(1) {
            let d0 = proj::random(&mut g.rng, "laea");
            let d = ProjDef { lat_0: Some(lat_0), centre: (d0.lon_0, (lat_0 as f64).clamp(-60.0, 60.0)), extent: (60.0, 28.0), ..d0 };
            let mut pts = proj::points(&mut g.rng, &d, 6);
            pts.push([d.lon_0.to_radians(), (lat_0 as f64).to_radians(), 0.0, 0.0]);
            pts.push([(d.lon_0 + 33.0).to_radians(), (lat_0 as f64).to_radians(), 5.0, 2000.0]);
            let def = d.def();
            g.push(op_line("default", &[], &[], &def, "apply", "F", &data_of(&pts)), "model-laea-aspects", true);
            pair(g, "origin", &def, &d.def_with(&d.ellps, d.lon_0, d.k_0, 0.0, 0.0), &[d.x_0, d.y_0], &pts, "oracle-origin-laea-aspects");
            pair(g, "lon0", &def, &d.def_with(&d.ellps, 0.0, d.k_0, d.x_0, d.y_0), &[d.lon_0], &pts, "oracle-lon0-laea-aspects");
        }
    }
    // utm / butm against their definitions
    for _ in 0..(if thorough { 600 } else { 60 }) {
        for (derived, base) in [("utm", "tmerc"), ("butm", "btmerc")] {
            let zone = 1 + g.rng.below(60);
            let south = g.rng.chance(1, 2);
            let ellps = *g.rng.pick(&proj::ELLPS);
            let a = format!("{derived} zone={zone}{} ellps={ellps}", if south { " south" } else { "" });
            let b = format!("{base} lon_0={} k_0=0.9996 x_0=500000 y_0={} ellps={ellps}", 6 * zone as i64 - 183, if south { 10000000 } else { 0 });
            let d = ProjDef { name: "utm", shape: String::new(), ellps: ellps.to_string(), lon_0: 6.0 * zone as f64 - 183.0, lat_0: None, k_0: 0.9996, x_0: 5e5, y_0: 0.0, has_lon0: false, has_k0: false, has_xy: false, centre: (6.0 * zone as f64 - 183.0, 0.0), extent: (if derived == "utm" { 20.0 } else { 2.8 }, 84.0) };
            let pts = proj::points(&mut g.rng, &d, 8);
            pair(g, "same", &a, &b, &[], &pts, &format!("oracle-{derived}-is-{base}"));
        }
    }
    for zone in 1..=60 {
        for south in [false, true] {
            let a = format!("utm zone={zone}{}", if south { " south" } else { "" });
            let b = format!("tmerc lon_0={} k_0=0.9996 x_0=500000 y_0={}", 6 * zone as i64 - 183, if south { 10000000 } else { 0 });
            let lon0 = (6.0 * zone as f64 - 183.0f64).to_radians();
            let pts = vec![[lon0, 0.0, 0.0, 0.0], [lon0 + 0.05, 0.9, 10.0, 2000.0], [lon0 - 0.05, -0.7, 0.0, 0.0]];
            pair(g, "same", &a, &b, &[], &pts, "oracle-utm-all-zones");
        }
    }
    // merc on a sphere = webmerc on the same sphere; lat_ts = the corresponding k_0; 1SP lcc = 2SP lcc
    for _ in 0..(if thorough { 300 } else { 40 }) {
        let r = *g.rng.pick(&["sphere", "unitsphere", "6371000,0", "6378137,0"]);
        let d = proj::random(&mut g.rng, "merc");
        let pts = proj::points(&mut g.rng, &d, 8).iter().map(|p| [p[0] - d.lon_0.to_radians(), p[1], p[2], p[3]]).collect::<Vec<_>>();
        if r.contains(',') {
            // `a,0` means rf = 0: not a sphere in this library (1/0); the table entries are
        } else {
            pair(g, "close", &format!("merc ellps={r}"), &format!("webmerc ellps={r}"), &[], &pts, "oracle-merc-sphere-is-webmerc");
            // (on the antimeridian and beyond it, longitudes counted on, they are the same function still)
            let far = vec![[std::f64::consts::PI, 0.3, 0.0, 0.0], [-std::f64::consts::PI, -0.3, 0.0, 0.0], [3.4, -0.5, 0.0, 0.0], [6.0, 0.2, 0.0, 0.0], [-3.3, 0.1, 0.0, 0.0], [g.rng.uniform(3.2, 6.2), g.rng.uniform(-1.2, 1.2), 0.0, 0.0]];
            pair(g, "close", &format!("merc ellps={r}"), &format!("webmerc ellps={r}"), &[], &far, "oracle-merc-sphere-is-webmerc-beyond-the-antimeridian");
            g.push(op_line("default", &[], &[], &format!("merc ellps={r}"), "apply", "F", &data_of(&far)), "model-merc-beyond-the-antimeridian", true);
        }
        let ts = *g.rng.pick(&[56.0, -56.0, 30.0, -30.0, 10.5, -75.0, 89.0]);
        let ellps = *g.rng.pick(&proj::ELLPS);
        g.push(op_line("default", &[], &[], &format!("merc lat_ts={ts} ellps={ellps}"), "apply", "F", &data_of(&pts)), "model-merc-lat_ts", true);
        pair(g, "lat_ts", &format!("merc lat_ts={ts} ellps={ellps}"), &format!("merc ellps={ellps}"), &[ts], &pts, "oracle-merc-lat_ts-is-k0");
        pair(g, "same", &format!("merc lat_ts={ts} ellps={ellps}"), &format!("merc lat_ts={} ellps={ellps}", -ts), &[], &pts, "oracle-merc-lat_ts-symmetric");
        // ... also in the company of the other parameters (the false origin left at zero: it is not scaled)
        let lat_0 = *g.rng.pick(&[10.0, -33.0, 49.0]);
        g.push(op_line("default", &[], &[], &format!("merc lat_ts={ts} lat_0={lat_0} lon_0=9 ellps={ellps}"), "apply", "F", &data_of(&pts)), "model-merc-lat_ts", true);
        pair(g, "lat_ts", &format!("merc lat_ts={ts} lat_0={lat_0} lon_0=9 ellps={ellps}"), &format!("merc lat_0={lat_0} lon_0=9 ellps={ellps}"), &[ts], &pts, "oracle-merc-lat_ts-is-k0-with-lat_0");
        let p1 = *g.rng.pick(&[57.0, -33.0, 20.0, 45.5, -60.0]);
        let l = proj::random(&mut g.rng, "lcc");
        let tail = format!("lon_0={} k_0={} x_0={} y_0={} ellps={}", l.lon_0, l.k_0, l.x_0, l.y_0, l.ellps);
        let lp = ProjDef { centre: (l.lon_0, p1), ..l.clone() };
        let lpts = proj::points(&mut g.rng, &lp, 8);
        g.push(op_line("default", &[], &[], &format!("lcc lat_1={p1} lat_2={p1} {tail}"), "apply", "F", &data_of(&lpts)), "model-lcc-equal-parallels", true);
        pair(g, "same", &format!("lcc lat_1={p1} {tail}"), &format!("lcc lat_1={p1} lat_2={p1} {tail}"), &[], &lpts, "oracle-lcc-1sp-is-2sp");
        pair(g, "same", &format!("lcc lat_1={p1} lat_0={} {tail}", p1 - 3.0), &format!("lcc lat_1={p1} lat_2={p1} lat_0={} {tail}", p1 - 3.0), &[], &lpts, "oracle-lcc-1sp-is-2sp");
    }
    // the noop aliases
    for alias in ["noop", "longlat", "latlon", "latlong", "lonlat"] {
        for tail in ["", " inv", " ellps=intl x_0=5"] {
            let d = proj::random(&mut g.rng, "merc");
            let mut pts = proj::points(&mut g.rng, &d, 6);
            pts.push([f64::NAN, -0.0, f64::INFINITY, 5e-324]);
            // longitudes in the 0..360 convention, several turns away, projected and cartesian coordinates
            pts.push([4.0, 0.5, 10.0, 2000.0]);
            pts.push([-7.0, -1.0, 0.0, 0.0]);
            pts.push([500000.0, 6.0e6, 100.0, 2020.0]);
            pts.push([-3.5e6, 2.1e6, 4.9e6, 0.0]);
            pair(g, "noop", &format!("{alias}{tail}"), "noop", &[], &pts, "oracle-noop-aliases");
        }
    }
}
