//! Grid geometries, their Gravsoft and NTv2 encodings, and the generators for C08 / C15
use super::Gen;
use crate::rng::Rng;
use crate::wire::fbits;

#[derive(Clone, Debug)]
pub struct GGrid {
    /// degrees (or metres when `projected`); first row = `lat_n`
    pub lat_n: f64,
    pub lat_s: f64,
    pub lon_w: f64,
    pub lon_e: f64,
    pub dlat: f64,
    pub dlon: f64,
    pub rows: usize,
    pub cols: usize,
    pub bands: usize,
    /// as written in a Gravsoft file: row major from the first row, bands interleaved
    pub values: Vec<f32>,
    pub projected: bool,
    /// vary the number formats and the layout of the text
    pub fancy: bool,
}

impl GGrid {
    pub fn random(r: &mut Rng, bands: usize, projected: bool) -> GGrid {
        let rows = 2 + r.below(5);
        let cols = 2 + r.below(6);
        // (spacings and borders that binary32 cannot hold: the geometry of a file is read in double precision)
        let d = *r.pick(&[0.25, 0.5, 1.0, 2.0, 0.1, 0.3]);
        let dlat = d;
        let dlon = *r.pick(&[d, d, d * 2.0, d / 2.0]);
        // a projected grid has at least one border beyond 720 in magnitude: all four, or only some (a grid
        // touching the equator or the central meridian of its projection, or straddling the limit)
        let (blat, blon) = if projected { *r.pick(&[(1000.0, 1000.0), (1000.0, 1000.0), (0.0, 1000.0), (1000.0, 0.0), (715.0, 1000.0), (-1000.0, 200.0), (0.0, -1000.0)]) } else { (0.0, 0.0) };
        let fine = if r.chance(1, 3) { 0.1 } else { 0.0 };
        let lat_s = blat + r.range(-40, 40) as f64 * 0.5 + fine;
        let lon_w = blon + r.range(-80, 80) as f64 * 0.5 - 3.0 * fine;
        let lat_n = lat_s + dlat * (rows - 1) as f64;
        let lon_e = lon_w + dlon * (cols - 1) as f64;
        let values: Vec<f32> = (0..rows * cols * bands).map(|_| (r.range(-2000, 2000) as f32) / 16.0).collect();
        GGrid { lat_n, lat_s, lon_w, lon_e, dlat, dlon, rows, cols, bands, values, projected, fancy: false }
    }

    /// node value (band b) at row i (from lat_n), column j, as the file writes it
    pub fn node(&self, i: usize, j: usize, b: usize) -> f32 {
        self.values[(i * self.cols + j) * self.bands + b]
    }

    pub fn gravsoft(&self, r: &mut Rng, flipped: bool) -> String {
        let mut t = String::new();
        if r.chance(1, 3) {
            t += "# a Gravsoft grid\n";
        }
        // lat_s lat_n lon_w lon_e dlat dlon; a grid stored south-to-north lists lat_n first
        let (a, b) = if flipped { (self.lat_n, self.lat_s) } else { (self.lat_s, self.lat_n) };
        if self.fancy && r.chance(1, 2) {
            // header spread over lines, with comments in between
            t += &format!("{:e} {}\n# extent\n {:.3}\t{:+} # longitudes\n{}\n{:E}", a, b, self.lon_w, self.lon_e, self.dlat, self.dlon);
        } else {
            t += &format!("{} {} {} {} {} {}", a, b, self.lon_w, self.lon_e, self.dlat, self.dlon);
        }
        // a comment starts at the `#`, wherever that is: also glued to the number before it
        t += *r.pick(&["\n", "\n\n", "   # header\n", "\r\n", "# dlat dlon\n", "#x\n"]);
        let rows: Vec<usize> = if flipped { (0..self.rows).rev().collect() } else { (0..self.rows).collect() };
        for i in rows {
            for j in 0..self.cols {
                for b in 0..self.bands {
                    let v = self.node(i, j, b);
                    t += &match r.below(if self.fancy { 6 } else { 1 }) {
                        0 | 1 => format!("{}", v),
                        2 => format!("{:e}", v),
                        3 => format!("{:+}", v),
                        4 => format!("{:.4}", v),
                        _ => format!("{:E}", v),
                    };
                    t += *r.pick(&[" ", " ", "  ", "\t"]);
                }
            }
            if r.chance(1, 8) {
                let keep = t.trim_end().len();
                t.truncate(keep);
                t += *r.pick(&["# row\n", "# one more row\n", "#\n", "#1 2 3\n"]);
            } else {
                t += *r.pick(&["\n", "\n", " # row\n", "\r\n"]);
            }
        }
        t
    }

    /// to_internal factor for positions
    pub fn unit(&self) -> f64 {
        if self.projected {
            1.0
        } else {
            std::f64::consts::PI / 180.0
        }
    }
}

fn rec(key: &str, val: &[u8], out: &mut Vec<u8>) {
    let mut k = key.as_bytes().to_vec();
    k.resize(8, b' ');
    out.extend(k);
    let mut v = val.to_vec();
    v.resize(8, 0);
    out.extend(v);
}

fn b_u32(v: u32, be: bool) -> Vec<u8> {
    if be {
        v.to_be_bytes().to_vec()
    } else {
        v.to_le_bytes().to_vec()
    }
}
fn b_f64(v: f64, be: bool) -> Vec<u8> {
    if be {
        v.to_be_bytes().to_vec()
    } else {
        v.to_le_bytes().to_vec()
    }
}
fn b_f32(v: f32, be: bool) -> Vec<u8> {
    if be {
        v.to_be_bytes().to_vec()
    } else {
        v.to_le_bytes().to_vec()
    }
}

/// one sub-grid of an NTv2 file: geographic degrees, two bands (lat shift, lon shift in arc
/// seconds, longitude shift positive east here)
pub struct Sub {
    pub name: String,
    pub parent: String,
    pub g: GGrid,
}

/// a sub-grid as written: header fields verbatim (arc seconds, longitude positive west), the
/// declared node count and the node records actually present
#[derive(Clone)]
pub struct RawSub {
    pub name: Vec<u8>,
    pub parent: Vec<u8>,
    pub s_lat: f64,
    pub n_lat: f64,
    pub e_long: f64,
    pub w_long: f64,
    pub lat_inc: f64,
    pub long_inc: f64,
    pub count: u32,
    /// (lat shift, lon shift positive west)
    pub nodes: Vec<(f32, f32)>,
}

pub fn raw_of(s: &Sub) -> RawSub {
    let g = &s.g;
    let mut nodes = vec![];
    // nodes: from the south-east corner, westwards, then northwards
    for i in (0..g.rows).rev() {
        for j in (0..g.cols).rev() {
            nodes.push((g.node(i, j, 0), -g.node(i, j, 1)));
        }
    }
    RawSub {
        name: s.name.as_bytes().to_vec(),
        parent: s.parent.as_bytes().to_vec(),
        s_lat: g.lat_s * 3600.0,
        n_lat: g.lat_n * 3600.0,
        e_long: -g.lon_e * 3600.0,
        w_long: -g.lon_w * 3600.0,
        lat_inc: g.dlat * 3600.0,
        long_inc: g.dlon * 3600.0,
        count: (g.rows * g.cols) as u32,
        nodes,
    }
}

pub fn ntv2_encode_raw(subs: &[RawSub], be: bool, num_file: u32, gs_type: &[u8]) -> Vec<u8> {
    let mut out = vec![];
    rec("NUM_OREC", &b_u32(11, be), &mut out);
    rec("NUM_SREC", &b_u32(11, be), &mut out);
    rec("NUM_FILE", &b_u32(num_file, be), &mut out);
    rec("GS_TYPE", gs_type, &mut out);
    rec("VERSION", b"NTv2.0  ", &mut out);
    rec("SYSTEM_F", b"ED50    ", &mut out);
    rec("SYSTEM_T", b"ETRS89  ", &mut out);
    rec("MAJOR_F", &b_f64(6378388.0, be), &mut out);
    rec("MINOR_F", &b_f64(6356911.946, be), &mut out);
    rec("MAJOR_T", &b_f64(6378137.0, be), &mut out);
    rec("MINOR_T", &b_f64(6356752.314, be), &mut out);
    for s in subs {
        let mut name = s.name.clone();
        name.resize(8, b' ');
        let mut parent = s.parent.clone();
        parent.resize(8, b' ');
        rec("SUB_NAME", &name, &mut out);
        rec("PARENT", &parent, &mut out);
        rec("CREATED", b"20240101", &mut out);
        rec("UPDATED", b"20240101", &mut out);
        rec("S_LAT", &b_f64(s.s_lat, be), &mut out);
        rec("N_LAT", &b_f64(s.n_lat, be), &mut out);
        rec("E_LONG", &b_f64(s.e_long, be), &mut out);
        rec("W_LONG", &b_f64(s.w_long, be), &mut out);
        rec("LAT_INC", &b_f64(s.lat_inc, be), &mut out);
        rec("LONG_INC", &b_f64(s.long_inc, be), &mut out);
        rec("GS_COUNT", &b_u32(s.count, be), &mut out);
        for (a, b) in &s.nodes {
            out.extend(b_f32(*a, be));
            out.extend(b_f32(*b, be));
            out.extend(b_f32(0.0, be));
            out.extend(b_f32(0.0, be));
        }
    }
    out
}

pub fn ntv2_encode(subs: &[Sub], be: bool) -> Vec<u8> {
    let raw: Vec<RawSub> = subs.iter().map(raw_of).collect();
    ntv2_encode_raw(&raw, be, subs.len() as u32, b"SECONDS ")
}

pub fn hex(b: &[u8]) -> String {
    b.iter().map(|x| format!("{:02x}", x)).collect()
}

/// query points: nodes, edges, interior, margin, outside
pub fn queries(r: &mut Rng, g: &GGrid, n: usize) -> Vec<(f64, f64, &'static str)> {
    let u = g.unit();
    let mut q = vec![];
    for _ in 0..n {
        let kind = r.below(6);
        let (lon, lat, class) = match kind {
            0 => (g.lon_w + g.dlon * r.below(g.cols) as f64, g.lat_n - g.dlat * r.below(g.rows) as f64, "node"),
            1 => (g.lon_w + g.dlon * r.uniform(0.0, (g.cols - 1) as f64), g.lat_n - g.dlat * r.below(g.rows) as f64, "edge"),
            2 => (g.lon_w + g.dlon * r.uniform(0.0, (g.cols - 1) as f64), g.lat_n - g.dlat * r.uniform(0.0, (g.rows - 1) as f64), "interior"),
            3 => (g.lon_w - g.dlon * r.uniform(0.0, 0.5), g.lat_n + g.dlat * r.uniform(0.0, 0.5), "margin"),
            4 => (g.lon_e + g.dlon * r.uniform(0.0, 0.49), g.lat_s + g.dlat * r.uniform(0.0, (g.rows - 1) as f64), "margin"),
            _ => (g.lon_w - g.dlon * r.uniform(0.6, 5.0), g.lat_s - g.dlat * r.uniform(0.6, 5.0), "outside"),
        };
        q.push((lon * u, lat * u, class));
    }
    q
}

fn pts(q: &[(f64, f64, &'static str)]) -> String {
    q.iter().map(|(a, b, _)| format!("{},{}", fbits(*a), fbits(*b))).collect::<Vec<_>>().join(";")
}

pub fn random_tree(r: &mut Rng) -> Vec<Sub> {
    // a root grid and, inside it, children aligned to the parent's nodes (and grandchildren)
    let mut root = GGrid::random(r, 2, false);
    // (NTv2 headers are in arc seconds: borders on whole half degrees, as real files have them)
    root.lat_s = (root.lat_s * 2.0).round() / 2.0;
    root.lon_w = (root.lon_w * 2.0).round() / 2.0;
    root.rows = 4 + r.below(3);
    root.cols = 4 + r.below(3);
    // (cells need not be square: the two spacings are two numbers of the header)
    let (dlat, dlon) = *r.pick(&[(1.0, 1.0), (1.0, 1.0), (1.0, 0.5), (0.5, 1.0), (1.0, 2.0), (2.0, 1.0)]);
    root.dlat = dlat;
    root.dlon = dlon;
    // grids reaching the antimeridian: the east border on 180 E exactly, or beyond it with longitudes counted on
    match r.below(12) {
        0 => root.lon_w = 180.0 - (root.cols - 1) as f64 * dlon,
        1 => root.lon_w = 177.0,
        2 => root.lon_w = -180.0,
        _ => {}
    }
    root.lat_n = root.lat_s + (root.rows - 1) as f64 * dlat;
    root.lon_e = root.lon_w + (root.cols - 1) as f64 * dlon;
    root.values = (0..root.rows * root.cols * 2).map(|_| (r.range(-2000, 2000) as f32) / 16.0).collect();
    // names as real files have them: upper case, mixed case ("ALbanff"), lower case, digits
    let style = r.below(4);
    let nm = move |base: &str| -> String {
        match style {
            0 => base.to_string(),
            1 => base.to_lowercase(),
            2 => base.chars().enumerate().map(|(i, c)| if i % 2 == 1 { c.to_ascii_lowercase() } else { c }).collect(),
            _ => format!("{}x", base.to_lowercase()),
        }
    };
    let root_name = nm("ROOT");
    let mut subs = vec![Sub { name: root_name.clone(), parent: "NONE".into(), g: root.clone() }];
    let nchild = r.below(3);
    for c in 0..nchild {
        // a 2x2-cell window of the parent at half spacing; windows side by side, not overlapping
        let j0 = c * 2;
        if j0 + 2 >= root.cols {
            break;
        }
        let mut g = root.clone();
        g.dlat = 0.5 * dlat;
        g.dlon = 0.5 * dlon;
        g.lat_s = root.lat_s;
        g.lat_n = root.lat_s + 2.0 * dlat;
        g.lon_w = root.lon_w + j0 as f64 * dlon;
        g.lon_e = g.lon_w + 2.0 * dlon;
        g.rows = 5;
        g.cols = 5;
        g.values = (0..50).map(|_| (r.range(-2000, 2000) as f32) / 16.0).collect();
        let name = nm(&format!("CH{c}"));
        if r.chance(1, 2) {
            let mut gg = g.clone();
            gg.dlat = 0.25 * dlat;
            gg.dlon = 0.25 * dlon;
            gg.lat_n = gg.lat_s + dlat;
            gg.lon_e = gg.lon_w + dlon;
            gg.rows = 5;
            gg.cols = 5;
            gg.values = (0..50).map(|_| (r.range(-2000, 2000) as f32) / 16.0).collect();
            subs.push(Sub { name: nm(&format!("GC{c}")), parent: name.clone(), g: gg });
        }
        subs.push(Sub { name, parent: root_name.clone(), g });
    }
    // the order of sub-grids in the file is arbitrary
    for i in (1..subs.len()).rev() {
        let k = r.below(i + 1);
        subs.swap(i, k);
    }
    subs
}

pub fn generate_c08(g: &mut Gen, thorough: bool) {
    gravsoft_cases(g, if thorough { 6000 } else { 600 }, false);
    c08_rest(g, thorough);
}

/// well-formed Gravsoft grids: the model's decoding and look-ups, and the reference oracle
pub fn gravsoft_cases(g: &mut Gen, n: usize, fancy: bool) {
    for k in 0..n {
        let bands = 1 + g.rng.below(3);
        let projected = k % 3 == 0;
        let mut grid = GGrid::random(&mut g.rng, bands, projected);
        grid.fancy = fancy;
        // (Gravsoft lists the southern border first, always: the interpolation supports that scan order only)
        let flipped = false;
        let text = grid.gravsoft(&mut g.rng, flipped);
        let q = queries(&mut g.rng, &grid, 12);
        let margin = *g.rng.pick(&[0.0, 0.5, 0.5, 1.0]);
        let class = format!("gravsoft-b{}-{}{}", bands, if projected { "proj" } else { "geo" }, if flipped { "-flipped" } else { "" });
        g.push(format!("GRID\tgravsoft\t{}\t{}\t{}", crate::wire::escape(&text), fbits(margin), pts(&q)), &class, true);
        // reference: node values and geometry, handed to the oracle
        let vals: Vec<String> = grid.values.iter().map(|v| fbits(*v as f64)).collect();
        g.push(
            format!(
                "S_C08\t{}\t{}\t{},{},{},{},{},{},{},{},{},{}\t{}\t{}\t{}",
                crate::wire::escape(&text),
                fbits(margin),
                fbits(grid.lat_n), fbits(grid.lat_s), fbits(grid.lon_w), fbits(grid.lon_e), fbits(grid.dlat), fbits(grid.dlon),
                grid.rows, grid.cols, grid.bands, if projected { 1 } else { 0 },
                vals.join(","),
                pts(&q),
                q.iter().map(|x| x.2).collect::<Vec<_>>().join(",")
            ),
            &format!("oracle-{class}"),
            true,
        );
    }
}

fn c08_rest(g: &mut Gen, thorough: bool) {
    // lists of grids: overlaps, first hit, margin pass, null grid
    for _ in 0..(if thorough { 3000 } else { 300 }) {
        let k = 1 + g.rng.below(3);
        let first = GGrid::random(&mut g.rng, 2, false);
        let mut f = vec!["GRIDS".to_string(), k.to_string()];
        let mut o = vec!["S_C08L".to_string(), k.to_string()];
        let mut all = vec![first.clone()];
        for i in 1..k {
            let mut other = GGrid::random(&mut g.rng, 2, false);
            // overlapping or adjacent to the first
            other.lat_s = first.lat_s + g.rng.range(-2, 2) as f64 * first.dlat;
            other.lon_w = first.lon_w + g.rng.range(-3, 3) as f64 * first.dlon;
            other.lat_n = other.lat_s + other.dlat * (other.rows - 1) as f64;
            other.lon_e = other.lon_w + other.dlon * (other.cols - 1) as f64;
            let _ = i;
            all.push(other);
        }
        for gr in &all {
            let t = gr.gravsoft(&mut g.rng, false);
            f.push("gravsoft".into());
            f.push(crate::wire::escape(&t));
            o.push(crate::wire::escape(&t));
        }
        let null = g.rng.chance(1, 3);
        let mut q = queries(&mut g.rng, &first, 8);
        q.extend(queries(&mut g.rng, all.last().unwrap(), 6));
        f.push(if null { "1" } else { "0" }.into());
        f.push(pts(&q));
        o.push(if null { "1" } else { "0" }.into());
        o.push(pts(&q));
        g.push(f.join("\t"), "grid-list", true);
        g.push(o.join("\t"), "oracle-grid-list", true);
    }
    ntv2_cases(g, if thorough { 3000 } else { 300 }, 3);
    c08_ops(g, thorough);
}

/// well-formed NTv2 hierarchies in either byte order
pub fn ntv2_cases(g: &mut Gen, n: usize, be_one_in: usize) {
    for _ in 0..n {
        let subs = random_tree(&mut g.rng);
        let be = g.rng.chance(1, be_one_in);
        let bytes = ntv2_encode(&subs, be);
        let root = subs.iter().find(|s| s.parent == "NONE").unwrap();
        let mut q = queries(&mut g.rng, &root.g, 10);
        for s in &subs {
            q.extend(queries(&mut g.rng, &s.g, 4));
        }
        let margin = *g.rng.pick(&[0.0, 0.5]);
        g.push(format!("GRID\tntv2\t{}\t{}\t{}", hex(&bytes), fbits(margin), pts(&q)), if be { "ntv2-be" } else { "ntv2-le" }, true);
        g.push(format!("S_C18G\tntv2\t{}\t{}\t{}", hex(&bytes), fbits(margin), pts(&q)), "oracle-grid-is-a-function", true);
        // the oracle gets the tree: name, parent, geometry, values
        let mut o = vec!["S_C08N".to_string(), hex(&bytes), fbits(margin), subs.len().to_string()];
        for s in &subs {
            o.push(s.name.clone());
            o.push(s.parent.clone());
            o.push(format!("{},{},{},{},{},{},{},{}", fbits(s.g.lat_n), fbits(s.g.lat_s), fbits(s.g.lon_w), fbits(s.g.lon_e), fbits(s.g.dlat), fbits(s.g.dlon), s.g.rows, s.g.cols));
            o.push(s.g.values.iter().map(|v| fbits(*v as f64)).collect::<Vec<_>>().join(","));
        }
        o.push(pts(&q));
        g.push(o.join("\t"), "oracle-ntv2", true);
    }
}

fn c08_ops(g: &mut Gen, thorough: bool) {
    // the correction of a point is its own: velocity times the time from the epoch of the frame to the epoch of
    // the point, whatever the epochs of the points before it (and the inverse of a shift undoes it whatever the
    // points before it were)
    for def in ["deformation t_epoch=2000 grids=test.deformation", "deformation raw t_epoch=2010.5 grids=test.deformation", "deformation t_epoch=1995 grids=test.deformation,@null", "gridshift grids=test.datum", "gridshift grids=test_subset.datum,test.datum"] {
        for n in [2usize, 7, 40] {
            let set = super::c02::deformation_set(g, n);
            for dir in ["F", "I"] {
                let seed = g.rng.next() % 1000000;
                g.push(format!("S_C02\tplain-new\t{}\t{}\t{}\t{}", crate::wire::escape(def), dir, seed, crate::wire::data_of(&set)), "oracle-each-point-its-own", true);
            }
        }
    }
    // rough datum shift grids (corrections changing by tens of arc seconds from node to node)
    for k in 0..(if thorough { 60 } else { 8 }) {
        let (rows, cols) = (5usize, 9usize);
        // (one in four lies across the antimeridian, its longitudes counted on beyond 180, or below -180)
        let (lat_s, lon_w) = (g.rng.range(-40, 50) as f64, match k % 8 { 0 => 175.0, 1 => -187.0, _ => g.rng.range(-100, 100) as f64 });
        let values: Vec<f32> = (0..rows * cols * 2).map(|_| g.rng.range(-6000, 6000) as f32 / 100.0).collect();
        let gr = GGrid { lat_n: lat_s + (rows - 1) as f64, lat_s, lon_w, lon_e: lon_w + (cols - 1) as f64, dlat: 1.0, dlon: 1.0, rows, cols, bands: 2, values, projected: false, fancy: false };
        let text = gr.gravsoft(&mut g.rng, false);
        let u = std::f64::consts::PI / 180.0;
        let q: Vec<(f64, f64, &'static str)> = (0..8).map(|_| ((lon_w + g.rng.uniform(0.6, cols as f64 - 1.6)) * u, (lat_s + g.rng.uniform(0.6, rows as f64 - 1.6)) * u, "inside")).collect();
        g.push(format!("S_C08R\t{}\t{}", crate::wire::escape(&text), pts(&q)), "oracle-rough-grid-roundtrip", true);
        let data: Vec<[f64; 4]> = q.iter().map(|p| [p.0, p.1, 10.0, 2000.0]).collect();
        let grids = vec![("rough.grid".to_string(), "gravsoft".to_string(), crate::wire::escape(&text))];
        for dir in ["F", "I"] {
            g.push(super::opg_line(&grids, "gridshift grids=rough.grid", "apply", dir, &crate::wire::data_of(&data)), "model-rough-grid", true);
        }
    }
    let _ = thorough;
    // grid operators over lists of constant-valued grids: first hit, then first within the margin
    for i in 0..(if thorough { 2000 } else { 240 }) {
        let kind = ["gridshift", "deformation", "gridshift", "deformation", "deflection"][i % 5];
        let bands = match kind {
            "gridshift" => 2,
            "deformation" => 3,
            _ => 1,
        };
        let k = 2 + g.rng.below(2);
        // 2x2 grids of one cell each, side by side along the parallel with gaps of 0 .. 1.2 cells,
        // sometimes overlapping
        let d = 1.0;
        let lat_s = g.rng.range(40, 60) as f64;
        let mut lon = g.rng.range(0, 20) as f64;
        let mut f = vec!["S_C08D".to_string(), kind.to_string(), k.to_string()];
        let mut geoms = vec![];
        for j in 0..k {
            let v = (j + 1) as f32;
            let gr = GGrid { lat_n: lat_s + d, lat_s, lon_w: lon, lon_e: lon + d, dlat: d, dlon: d, rows: 2, cols: 2, bands, values: vec![v; 4 * bands], projected: false, fancy: false };
            f.push(crate::wire::escape(&gr.gravsoft(&mut g.rng, false)));
            f.push(format!("{},{},{},{},{},{}", fbits(gr.lat_n), fbits(gr.lat_s), fbits(gr.lon_w), fbits(gr.lon_e), fbits(gr.dlat), fbits(gr.dlon)));
            lon += d + *g.rng.pick(&[0.0, 0.3, 0.6, 0.8, 1.2, -0.5, -0.5, -0.3]);
            geoms.push(gr);
        }
        let null = g.rng.chance(1, 4);
        let mut q: Vec<(f64, f64, &'static str)> = vec![];
        let u = std::f64::consts::PI / 180.0;
        for gr in &geoms {
            for _ in 0..5 {
                q.push(((gr.lon_w + g.rng.uniform(-0.7, 1.7)) * u, (gr.lat_s + g.rng.uniform(-0.7, 1.7)) * u, "any"));
            }
        }
        // a point inside a later grid only, followed in the same batch by a point where it overlaps an
        // earlier one: the earlier grid must still win for the second point
        for j in 1..geoms.len() {
            let (a, b) = (&geoms[j - 1], &geoms[j]);
            if b.lon_w < a.lon_e {
                q.push(((a.lon_e + 0.5 * (b.lon_e - a.lon_e)) * u, (b.lat_s + 0.4) * u, "later-only"));
                q.push(((b.lon_w + 0.5 * (a.lon_e - b.lon_w)) * u, (b.lat_s + 0.6) * u, "overlap"));
            }
        }
        f.push(if null { "1" } else { "0" }.into());
        f.push(pts(&q));
        g.push(f.join("\t"), &format!("oracle-oplist-{kind}"), true);
        // the same operator over the same grids, on the model
        {
            let grids: Vec<(String, String, String)> = (0..k).map(|j| (format!("g{j}.grid"), "gravsoft".to_string(), f[3 + 2 * j].clone())).collect();
            let names: Vec<String> = (0..k).map(|j| format!("g{j}.grid")).collect();
            let mut def = match kind {
                "deformation" => format!("deformation raw dt=1 grids={}", names.join(",")),
                "deflection" => format!("deflection grids={}", names.join(",")),
                _ => format!("gridshift grids={}", names.join(",")),
            };
            if null {
                def += ",@null";
            }
            // the null grid elsewhere than last (the code ignores what follows it; the statement is silent, so
            // this goes to the model only)
            let def_mid = if k >= 2 {
                let at = g.rng.below(k);
                let mut n2 = names.clone();
                n2.insert(at, "@null".to_string());
                Some(def.replace(&format!("grids={}", names.join(",")), &format!("grids={}", n2.join(","))).replace(",@null,@null", ",@null"))
            } else {
                None
            };
            let data: Vec<[f64; 4]> = q
                .iter()
                .map(|p| match kind {
                    "deformation" => { let (s, c) = p.1.sin_cos(); let (sl, cl) = p.0.sin_cos(); [6.38e6 * c * cl, 6.38e6 * c * sl, 6.36e6 * s, 2000.0] }
                    "deflection" => [p.1.to_degrees(), p.0.to_degrees(), 10.0, 2000.0],
                    _ => [p.0, p.1, 10.0, 2000.0],
                })
                .collect();
            g.push(super::opg_line(&grids, &def, "apply", "F", &crate::wire::data_of(&data)), &format!("model-oplist-{kind}"), true);
            if let Some(dm) = &def_mid {
                g.push(super::opg_line(&grids, dm, "apply", "F", &crate::wire::data_of(&data)), &format!("model-oplist-{kind}-null-inside"), true);
            }
            if kind != "deflection" {
                g.push(super::opg_line(&grids, &def, "apply", "I", &crate::wire::data_of(&data)), &format!("model-oplist-{kind}-inv"), true);
            }
        }
    }
    // operators on the shipped grids: conventions of sign, order and unit
    for def in [
        "gridshift grids=test.datum", "gridshift grids=test.geoid", "gridshift grids=5458.gsb", "gridshift grids=5458_with_subgrid.gsb",
        "gridshift grids=test_subset.datum,test.datum", "gridshift grids=@missing.datum,test.datum", "gridshift grids=test_subset.datum,@null",
        "deformation dt=1 grids=test.deformation", "deformation raw dt=2 grids=test.deformation", "deflection grids=test.geoid",
        "gridshift grids=100800401.gsb",
        "gridshift grids=5458_with_subgrid.gsb,test.datum", "gridshift grids=5458.gsb,@null", "gridshift grids=5458.gsb,test.datum",
    ] {
        g.push(format!("S_C08O\t{}", crate::wire::escape(def)), "oracle-operator", true);
        // the same definition over the shipped files, on the model
        if !def.contains("100800401") {
            let u = std::f64::consts::PI / 180.0;
            let mut geo: Vec<[f64; 4]> = (0..8).map(|_| [g.rng.uniform(7.0, 17.0) * u, g.rng.uniform(53.0, 59.0) * u, g.rng.uniform(0.0, 100.0), 2000.0 + g.rng.below(30) as f64]).collect();
            // a hair outside and inside the south and west borders of the NTv2 root (54 N, 8 E) and of its child
            // (55 N, 12 E): the tolerances of the sub-grid search (1e-6) and of the interpolation differ
            for eps in [1e-10f64, 1e-8, 5e-7, 2e-6] {
                for s in [-1.0, 1.0] {
                    geo.push([12.5 * u, 54.0 * u + s * eps, 10.0, 2000.0]);
                    geo.push([8.0 * u + s * eps, 56.5 * u, 10.0, 2000.0]);
                    geo.push([12.5 * u, 55.0 * u + s * eps, 10.0, 2000.0]);
                    geo.push([12.0 * u + s * eps, 55.5 * u, 10.0, 2000.0]);
                }
            }
            // positions that are not numbers are in no grid
            geo.push([f64::NAN, 56.0 * u, 10.0, 2000.0]);
            geo.push([12.0 * u, f64::NAN, 10.0, 2000.0]);
            // on, just inside and just outside the northern and eastern borders (54-58 N, 8-16 E), and a corner
            for (lat, lon) in [(58.0, 12.0), (57.999995, 12.0), (58.000005, 12.0), (56.0, 16.0), (56.0, 15.999995), (56.0, 16.000005), (58.0, 16.0), (54.0, 8.0), (54.000004, 8.000004)] {
                geo.push([lon * u, lat * u, 10.0, 2000.0]);
            }
            let data: Vec<[f64; 4]> = if def.starts_with("deformation") {
                geo.iter().map(|p| { let (s, c) = p[1].sin_cos(); let (sl, cl) = p[0].sin_cos(); [6.38e6 * c * cl, 6.38e6 * c * sl, 6.36e6 * s, p[3]] }).collect()
            } else if def.starts_with("deflection") {
                geo.iter().map(|p| [p[1].to_degrees(), p[0].to_degrees(), p[2], p[3]]).collect()
            } else {
                geo
            };
            for dir in ["F", "I"] {
                g.push(super::opg_line(&super::shipped_grids_of(def), def, "apply", dir, &crate::wire::data_of(&data)), "model-operator", true);
            }
        }
    }
}


// ----- C15: damaged files ---------------------------------------------------------

const SHIPPED_SMALL: [(&str, &str); 7] = [
    ("ntv2", "geodesy/gsb/5458.gsb"),
    ("ntv2", "geodesy/gsb/5458_with_subgrid.gsb"),
    ("gravsoftb", "geodesy/datum/test.datum"),
    ("gravsoftb", "geodesy/datum/test_subset.datum"),
    ("gravsoftb", "geodesy/geoid/test.geoid"),
    ("gravsoftb", "geodesy/deformation/test.deformation"),
    ("gravsoftb", "geodesy/deformation/another_test.deformation"),
];

fn repo_file(rel: &str) -> Vec<u8> {
    let root = std::env::var("VERIF_REPO").unwrap_or_else(|_| "/repo".to_string());
    std::fs::read(std::path::Path::new(&root).join(rel)).unwrap_or_default()
}

/// query points for a damaged file: around the area of the shipped test grids, plus extremes
fn damaged_queries(r: &mut Rng, lat0: f64, lat1: f64, lon0: f64, lon1: f64) -> String {
    let u = std::f64::consts::PI / 180.0;
    let mut q: Vec<(f64, f64, &'static str)> = vec![];
    for _ in 0..4 {
        q.push((r.uniform(lon0, lon1) * u, r.uniform(lat0, lat1) * u, "in"));
    }
    q.push((lon0 * u, lat1 * u, "corner"));
    q.push(((lon0 - 0.3) * u, (lat0 - 0.2) * u, "margin"));
    q.push(((lon1 + 30.0) * u, (lat1 + 20.0) * u, "outside"));
    q.push((*r.pick(&[f64::NAN, f64::INFINITY, -1e300, 0.0]), *r.pick(&[f64::NAN, f64::NEG_INFINITY, 1e300, 0.0]), "extreme"));
    pts(&q)
}

/// one damaged file: as a correspondence case (the model predicts error class or values) and as a
/// safety case (no panic, no hang, bounded allocation, safe queries and operator use)
fn push_damaged(g: &mut Gen, fmt: &str, bytes: &[u8], class: &str, area: (f64, f64, f64, f64)) {
    let q = damaged_queries(&mut g.rng, area.0, area.1, area.2, area.3);
    let margin = *g.rng.pick(&[0.0, 0.5, 0.5, 3.0]);
    g.push(format!("GRID\t{}\t{}\t{}\t{}", fmt, hex(bytes), fbits(margin), q), class, true);
    g.push(format!("S_C15\t{}\t{}\t{}", fmt, hex(bytes), q), &format!("oracle-{class}"), true);
}

fn corrupt(r: &mut Rng, b: &[u8], header_len: usize) -> (Vec<u8>, &'static str) {
    let mut v = b.to_vec();
    if v.is_empty() {
        return (v, "empty");
    }
    let n = v.len();
    let hl = header_len.min(n);
    match r.below(9) {
        0 => {
            // overwrite a run of bytes with noise
            let at = r.below(n);
            let len = 1 + r.below(12);
            for i in at..(at + len).min(n) {
                v[i] = r.below(256) as u8;
            }
            (v, "noise")
        }
        1 => {
            // noise in a header
            let at = r.below(hl.max(1));
            let len = 1 + r.below(8);
            for i in at..(at + len).min(n) {
                v[i] = r.below(256) as u8;
            }
            (v, "noise-header")
        }
        2 => {
            // delete a run
            let at = r.below(n);
            let len = 1 + r.below(40);
            v.drain(at..(at + len).min(n));
            (v, "delete")
        }
        3 => {
            // insert noise
            let at = r.below(n + 1);
            let len = 1 + r.below(20);
            let ins: Vec<u8> = (0..len).map(|_| r.below(256) as u8).collect();
            v.splice(at..at, ins);
            (v, "insert")
        }
        4 => {
            // duplicate a region
            let at = r.below(n);
            let len = (1 + r.below(200)).min(n - at);
            let dup = v[at..at + len].to_vec();
            v.splice(at..at, dup);
            (v, "duplicate")
        }
        5 => {
            // a field of all ones / zeros (NaN, huge counts)
            let at = r.below(hl.max(1)) / 8 * 8;
            let fill = *r.pick(&[0u8, 0xff, 0x7f, 0x80]);
            for i in at..(at + 8).min(n) {
                v[i] = fill;
            }
            (v, "fill-field")
        }
        6 => {
            // swap two regions
            let a = r.below(n);
            let c = r.below(n);
            let len = (1 + r.below(16)).min(n - a.max(c));
            for i in 0..len {
                v.swap(a + i, c + i);
            }
            (v, "swap")
        }
        7 => {
            // several single bit flips
            for _ in 0..(2 + r.below(4)) {
                let bit = r.below(n * 8);
                v[bit / 8] ^= 1 << (bit % 8);
            }
            (v, "multi-flip")
        }
        _ => {
            // append
            let len = 1 + r.below(64);
            v.extend((0..len).map(|_| r.below(256) as u8));
            (v, "append")
        }
    }
}

fn crafted_gravsoft(r: &mut Rng) -> (String, &'static str) {
    let cols = 2 + r.below(4);
    let rows = 2 + r.below(3);
    let bands = 1 + r.below(3);
    let vals = |r: &mut Rng, n: usize| -> String { (0..n).map(|_| format!("{} ", r.range(-50, 50))).collect::<String>() };
    let k = r.below(22);
    let e3 = r.below(3);
    match k {
        0 => (format!("55 55 8 {} 1 1\n{}", 8 + cols - 1, vals(r, cols * bands)), "single-row"),
        1 => (format!("54 {} 8 8 1 1\n{}", 54 + rows - 1, vals(r, rows * bands)), "single-column"),
        2 => (format!("54 {} 8 {} 0 1\n{}", 54 + rows - 1, 8 + cols - 1, vals(r, rows * cols * bands)), "zero-dlat"),
        3 => (format!("54 {} 8 {} 1 0\n{}", 54 + rows - 1, 8 + cols - 1, vals(r, rows * cols * bands)), "zero-dlon"),
        4 => (format!("54 {} 8 {} 100 1\n{}", 54 + rows - 1, 8 + cols - 1, vals(r, cols * bands)), "dlat-exceeds-extent"),
        5 => (format!("54 {} 8 {} -1 -1\n{}", 54 + rows - 1, 8 + cols - 1, vals(r, rows * cols * bands)), "negative-spacing"),
        6 => (format!("{} 54 8 {} 1 1\n{}", 54 + rows - 1, 8 + cols - 1, vals(r, rows * cols * bands)), "reversed-lat"),
        7 => (format!("54 {} {} 8 1 1\n{}", 54 + rows - 1, 8 + cols - 1, vals(r, rows * cols * bands)), "reversed-lon"),
        8 => (format!("54 {} 8 {} {} 1\n{}", 54 + rows - 1, 8 + cols - 1, r.pick(&["nan", "inf", "-inf", "1e400", "x", "1e-400"]), vals(r, rows * cols * bands)), "nonfinite-header"),
        9 => (format!("{} {} 8 {} 1 1\n{}", r.pick(&["nan", "inf", "1e308", "-1e308"]), 54 + rows - 1, 8 + cols - 1, vals(r, rows * cols * bands)), "nonfinite-extent"),
        10 => (format!("54 {} 8 {} 1 1\n{}", 54 + rows - 1, 8 + cols - 1, vals(r, rows * cols * bands + 1 + e3)), "extra-values"),
        11 => (format!("54 {} 8 {} 1 1\n{}", 54 + rows - 1, 8 + cols - 1, vals(r, (rows * cols * bands).saturating_sub(1 + e3))), "missing-values"),
        12 => (format!("54 {} 8 {} 1 1\n{}", 54 + rows - 1, 8 + cols - 1, vals(r, rows * cols * (4 + e3))), "too-many-bands"),
        13 => (format!("54 {} 8 {} 1 1\n", 54 + rows - 1, 8 + cols - 1), "no-values"),
        14 => (format!("54 {} 8 {} 1\n", 54 + rows - 1, 8 + cols - 1), "short-header"),
        15 => (format!("0 1e9 0 1e9 1e-3 1e-3\n{}", vals(r, 12)), "huge-dimensions"),
        16 => (format!("0 1e300 0 1e300 1e-300 1e-300\n{}", vals(r, 12)), "overflowing-dimensions"),
        17 => (
            format!("54 {} 8 {} 1 1\n{}", 54 + rows - 1, 8 + cols - 1, (0..rows * cols * bands).map(|_| format!("{} ", r.pick(&["nan", "1e39", "-1e39", "inf", "garbage", "1e-50", "0x10", "1_0", ".5", "5.", "+.5e+1", "1e", "--1"]))).collect::<String>()),
            "odd-values",
        ),
        18 => (format!("54\u{2003}{} 8\u{a0}{}\u{3000}1 1\u{85}{}", 54 + rows - 1, 8 + cols - 1, vals(r, rows * cols * bands).replace(' ', "\u{2009}")), "unicode-whitespace"),
        19 => (format!("\u{feff}54 {} 8 {} 1 1\n{}", 54 + rows - 1, 8 + cols - 1, vals(r, rows * cols * bands)), "bom"),
        20 => (format!("54 {} 8 {} 1 1\r{}\r", 54 + rows - 1, 8 + cols - 1, vals(r, rows * cols * bands)), "cr-only"),
        _ => (format!("5.4e1 {} 8 {} 0.5 0.5\n{}", 54 + rows - 1, 8 + cols - 1, vals(r, (2 * rows - 1) * (2 * cols - 1) * bands)), "fine"),
    }
}

fn crafted_ntv2(r: &mut Rng) -> (Vec<u8>, &'static str, (f64, f64, f64, f64)) {
    let subs = random_tree(r);
    let mut raw: Vec<RawSub> = subs.iter().map(raw_of).collect();
    let be = r.chance(1, 2);
    let mut num_file = raw.len() as u32;
    let mut gs_type: &[u8] = b"SECONDS ";
    let i = r.below(raw.len());
    let cols = subs[i].g.cols;
    let rows = subs[i].g.rows;
    let class = match r.below(24) {
        0 => {
            raw[i].n_lat = raw[i].s_lat;
            raw[i].count = cols as u32;
            raw[i].nodes.truncate(cols);
            "single-row"
        }
        1 => {
            raw[i].w_long = raw[i].e_long;
            raw[i].count = rows as u32;
            raw[i].nodes.truncate(rows);
            "single-column"
        }
        2 => {
            raw[i].lat_inc = 0.0;
            "zero-lat-inc"
        }
        3 => {
            raw[i].long_inc = 0.0;
            "zero-long-inc"
        }
        4 => {
            raw[i].lat_inc = -raw[i].lat_inc;
            "negative-lat-inc"
        }
        5 => {
            raw[i].long_inc = -raw[i].long_inc;
            "negative-long-inc"
        }
        6 => {
            raw[i].lat_inc = *r.pick(&[1e-300, f64::NAN, f64::INFINITY, 1e300, -0.0]);
            "odd-lat-inc"
        }
        7 => {
            let t = raw[i].s_lat;
            raw[i].s_lat = raw[i].n_lat;
            raw[i].n_lat = t;
            "reversed-lat"
        }
        8 => {
            let t = raw[i].e_long;
            raw[i].e_long = raw[i].w_long;
            raw[i].w_long = t;
            "reversed-long"
        }
        9 => {
            raw[i].nodes.clear();
            "no-nodes"
        }
        10 => {
            let k = r.below(raw[i].nodes.len());
            raw[i].nodes.truncate(k);
            "missing-nodes"
        }
        11 => {
            num_file += 1 + r.below(3) as u32;
            "num-file-too-large"
        }
        12 => {
            num_file = *r.pick(&[0, 0xffff_ffff, 0x8000_0000]);
            "num-file-odd"
        }
        13 => {
            num_file = num_file.saturating_sub(1);
            "num-file-too-small"
        }
        14 => {
            let other = (i + 1) % raw.len();
            raw[i].name = raw[other].name.clone();
            "duplicate-name"
        }
        15 => {
            for s in raw.iter_mut() {
                if s.parent == b"NONE" {
                    s.parent = s.name.clone();
                }
            }
            "root-is-own-parent"
        }
        16 => {
            raw[i].name = b"NONE".to_vec();
            "name-none"
        }
        17 => {
            raw[i].name = vec![0xff, 0xfe, b'A'];
            "name-not-utf8"
        }
        18 => {
            // valid multi-byte UTF-8 with Unicode white space to trim
            raw[i].name = "\u{a0}Å1".as_bytes().to_vec();
            for s in raw.iter_mut() {
                if s.parent == subs[i].name.as_bytes() {
                    s.parent = "Å1\u{2003}".as_bytes().to_vec();
                }
            }
            "name-unicode"
        }
        19 => {
            gs_type = *r.pick(&[b"MINUTES " as &[u8], b"SECONDS\0", b"seconds "]);
            "gs-type"
        }
        20 => {
            raw[i].count = *r.pick(&[0, 0xffff_ffff, 1]);
            "count-odd"
        }
        21 => {
            // huge but consistent: the node count cannot be present
            raw[i].n_lat = raw[i].s_lat + raw[i].lat_inc * 65535.0;
            raw[i].w_long = raw[i].e_long + raw[i].long_inc * 65535.0;
            raw[i].count = 0;
            "huge-consistent-overflowing-count"
        }
        22 => {
            raw[i].n_lat = f64::NAN;
            "nan-extent"
        }
        _ => {
            // a parent naming a grid that does not exist
            raw[i].parent = b"NOSUCH".to_vec();
            "unknown-parent"
        }
    };
    // (the queries go where the damaged sub-grid was meant to be)
    let at = &subs[i].g;
    (ntv2_encode_raw(&raw, be, num_file, gs_type), class, (at.lat_s, at.lat_n, at.lon_w, at.lon_e))
}

pub fn generate_c15(g: &mut Gen, thorough: bool) {
    // well-formed files: every layout, either byte order, any sub-grid order
    gravsoft_cases(g, if thorough { 3000 } else { 200 }, true);
    ntv2_cases(g, if thorough { 2000 } else { 150 }, 2);
    let area = (54.0, 58.0, 8.0, 16.0);

    // the shipped files: intact, every truncation length, every single bit flip in the headers
    for (fmt, rel) in SHIPPED_SMALL {
        let bytes = repo_file(rel);
        let short = rel.rsplit('/').next().unwrap_or(rel).replace('.', "_");
        push_damaged(g, fmt, &bytes, &format!("intact-{short}"), area);
        let step = if thorough { 1 } else { 11 };
        let mut len = 0;
        while len < bytes.len() {
            push_damaged(g, fmt, &bytes[..len], &format!("truncated-{short}"), area);
            len += if thorough || len > 400 { step } else { 3 };
        }
        // bit flips: the two headers of an NTv2 file, the first lines of a Gravsoft file
        let span = if fmt == "ntv2" { 352.min(bytes.len()) } else { 60.min(bytes.len()) };
        let nbits = span * 8;
        let take = if thorough { nbits } else { 120 };
        for k in 0..take {
            let bit = if thorough { k } else { g.rng.below(nbits) };
            let mut v = bytes.clone();
            v[bit / 8] ^= 1 << (bit % 8);
            push_damaged(g, fmt, &v, &format!("bitflip-header-{short}"), area);
        }
        for _ in 0..(if thorough { 300 } else { 25 }) {
            let bit = g.rng.below(bytes.len() * 8);
            let mut v = bytes.clone();
            v[bit / 8] ^= 1 << (bit % 8);
            push_damaged(g, fmt, &v, &format!("bitflip-body-{short}"), area);
        }
        for _ in 0..(if thorough { 600 } else { 60 }) {
            let (v, kind) = corrupt(&mut g.rng, &bytes, if fmt == "ntv2" { 352 } else { 60 });
            push_damaged(g, fmt, &v, &format!("corrupt-{kind}"), area);
        }
    }
    // Gravsoft headers that claim far more nodes than the file holds (a damaged spacing or border, each dimension
    // still in range): an error, not an allocation sized by the header
    for header in [
        "54 58 8 16 1.e-8 1.e-8", "54 58 8 16 1 1e-8", "54 58 8 16 0.00000001 1", "54 58 8 16 4e-9 1", "-80 80 -179 179 1e-6 1e-6", "54. 58. 8. 16. 1.e-8 1.",
        "54 54.5 8 8.5 5e-10 5e-10", "5400000 5800000 800000 1600000 0.01 0.01",
    ] {
        let text = format!("{header}\n 1 2 3 4 5\n 6 7 8 9 10\n");
        push_damaged(g, "gravsoft", text.as_bytes(), "gravsoft-header-claims-too-much", area);
    }
    // the larger shipped files by name (the harness applies the damage itself)
    for (rel, n) in [("geodesy/gsb/100800401.gsb", 25824usize), ("geodesy/deformation/eur_nkg_nkgrf17vel.deformation", 2826447)] {
        g.push(format!("S_C15F\t{rel}\tid"), "oracle-large-intact", true);
        for _ in 0..(if thorough { 60 } else { 6 }) {
            let len = g.rng.below(n);
            g.push(format!("S_C15F\t{rel}\ttrunc:{len}"), "oracle-large-truncated", true);
            let bit = g.rng.below(if rel.ends_with("gsb") { 352 * 8 } else { 800 });
            g.push(format!("S_C15F\t{rel}\tflip:{bit}"), "oracle-large-bitflip", true);
        }
    }
    {
        // the medium sized NTv2 file also through the model
        let bytes = repo_file("geodesy/gsb/100800401.gsb");
        let area = (39.0, 43.0, -1.0, 4.0);
        push_damaged(g, "ntv2", &bytes, "intact-100800401_gsb", area);
        for _ in 0..(if thorough { 200 } else { 12 }) {
            let len = g.rng.below(bytes.len());
            push_damaged(g, "ntv2", &bytes[..len], "truncated-100800401_gsb", area);
            let bit = g.rng.below(352 * 8);
            let mut v = bytes.clone();
            v[bit / 8] ^= 1 << (bit % 8);
            push_damaged(g, "ntv2", &v, "bitflip-header-100800401_gsb", area);
        }
    }
    // generated files, damaged the same way
    for _ in 0..(if thorough { 1500 } else { 120 }) {
        let subs = random_tree(&mut g.rng);
        let be = g.rng.chance(1, 2);
        let bytes = ntv2_encode(&subs, be);
        let root = &subs.iter().find(|s| s.parent == "NONE").unwrap().g;
        let area = (root.lat_s, root.lat_n, root.lon_w, root.lon_e);
        match g.rng.below(3) {
            0 => {
                let len = g.rng.below(bytes.len());
                push_damaged(g, "ntv2", &bytes[..len], "truncated-generated-ntv2", area);
            }
            1 => {
                let bit = g.rng.below(bytes.len().min(176 * (1 + subs.len())) * 8);
                let mut v = bytes.clone();
                v[bit / 8] ^= 1 << (bit % 8);
                push_damaged(g, "ntv2", &v, "bitflip-generated-ntv2", area);
            }
            _ => {
                let (v, kind) = corrupt(&mut g.rng, &bytes, 352);
                push_damaged(g, "ntv2", &v, &format!("corrupt-{kind}"), area);
            }
        }
    }
    for _ in 0..(if thorough { 1500 } else { 120 }) {
        let bands = 1 + g.rng.below(3);
        let mut grid = GGrid::random(&mut g.rng, bands, false);
        grid.fancy = true;
        let text = grid.gravsoft(&mut g.rng, false);
        let bytes = text.as_bytes();
        let area = (grid.lat_s, grid.lat_n, grid.lon_w, grid.lon_e);
        match g.rng.below(3) {
            0 => {
                let len = g.rng.below(bytes.len());
                push_damaged(g, "gravsoftb", &bytes[..len], "truncated-generated-gravsoft", area);
            }
            1 => {
                let bit = g.rng.below(bytes.len() * 8);
                let mut v = bytes.to_vec();
                v[bit / 8] ^= 1 << (bit % 8);
                push_damaged(g, "gravsoftb", &v, "bitflip-generated-gravsoft", area);
            }
            _ => {
                let (v, kind) = corrupt(&mut g.rng, bytes, 60);
                push_damaged(g, "gravsoftb", &v, &format!("corrupt-{kind}"), area);
            }
        }
    }
    // files that are damaged consistently (header fields that agree with each other)
    for _ in 0..(if thorough { 2000 } else { 200 }) {
        let (text, class) = crafted_gravsoft(&mut g.rng);
        push_damaged(g, "gravsoftb", text.as_bytes(), &format!("crafted-gravsoft-{class}"), area);
    }
    for _ in 0..(if thorough { 2000 } else { 240 }) {
        let (bytes, class, area) = crafted_ntv2(&mut g.rng);
        let area = if g.rng.chance(1, 4) { (-20.0, 25.0, -40.0, 45.0) } else { area };
        push_damaged(g, "ntv2", &bytes, &format!("crafted-ntv2-{class}"), area);
    }
    // the ASCII twins of the shipped NTv2 files
    for name in ["5458", "5458_with_subgrid"] {
        g.push(format!("S_C15A\t{name}"), "oracle-gsa-twin", true);
    }
}
