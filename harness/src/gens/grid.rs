//! Grid geometries, their Gravsoft and NTv2 encodings, and the generators for C08 / C15
use super::Gen;
use crate::rng::Rng;
use crate::wire::fbits;

#[derive(Clone, Debug)]
pub struct GGrid {
    /// degrees (or metres when `projected`); first row = `lat_n`
    pub lat_n: f64,
    pub lat_s: f64,
    pub lon_w: f64,
    pub lon_e: f64,
    pub dlat: f64,
    pub dlon: f64,
    pub rows: usize,
    pub cols: usize,
    pub bands: usize,
    /// as written in a Gravsoft file: row major from the first row, bands interleaved
    pub values: Vec<f32>,
    pub projected: bool,
}

impl GGrid {
    pub fn random(r: &mut Rng, bands: usize, projected: bool) -> GGrid {
        let rows = 2 + r.below(5);
        let cols = 2 + r.below(6);
        let d = *r.pick(&[0.25, 0.5, 1.0, 2.0]);
        let dlat = d;
        let dlon = *r.pick(&[d, d, d * 2.0, d / 2.0]);
        let base = if projected { 1000.0 } else { 0.0 };
        let lat_s = base + r.range(-40, 40) as f64 * 0.5;
        let lon_w = base + r.range(-80, 80) as f64 * 0.5;
        let lat_n = lat_s + dlat * (rows - 1) as f64;
        let lon_e = lon_w + dlon * (cols - 1) as f64;
        let values: Vec<f32> = (0..rows * cols * bands).map(|_| (r.range(-2000, 2000) as f32) / 16.0).collect();
        GGrid { lat_n, lat_s, lon_w, lon_e, dlat, dlon, rows, cols, bands, values, projected }
    }

    /// node value (band b) at row i (from lat_n), column j, as the file writes it
    pub fn node(&self, i: usize, j: usize, b: usize) -> f32 {
        self.values[(i * self.cols + j) * self.bands + b]
    }

    pub fn gravsoft(&self, r: &mut Rng, flipped: bool) -> String {
        let mut t = String::new();
        if r.chance(1, 3) {
            t += "# a Gravsoft grid\n";
        }
        // lat_s lat_n lon_w lon_e dlat dlon; a grid stored south-to-north lists lat_n first
        let (a, b) = if flipped { (self.lat_n, self.lat_s) } else { (self.lat_s, self.lat_n) };
        t += &format!("{} {} {} {} {} {}", a, b, self.lon_w, self.lon_e, self.dlat, self.dlon);
        t += *r.pick(&["\n", "\n\n", "   # header\n", "\r\n"]);
        let rows: Vec<usize> = if flipped { (0..self.rows).rev().collect() } else { (0..self.rows).collect() };
        for i in rows {
            for j in 0..self.cols {
                for b in 0..self.bands {
                    t += &format!("{}", self.node(i, j, b));
                    t += *r.pick(&[" ", " ", "  ", "\t"]);
                }
            }
            t += *r.pick(&["\n", "\n", " # row\n", "\r\n"]);
        }
        t
    }

    /// to_internal factor for positions
    pub fn unit(&self) -> f64 {
        if self.projected {
            1.0
        } else {
            std::f64::consts::PI / 180.0
        }
    }
}

fn rec(key: &str, val: &[u8], out: &mut Vec<u8>) {
    let mut k = key.as_bytes().to_vec();
    k.resize(8, b' ');
    out.extend(k);
    let mut v = val.to_vec();
    v.resize(8, 0);
    out.extend(v);
}

fn b_u32(v: u32, be: bool) -> Vec<u8> {
    if be {
        v.to_be_bytes().to_vec()
    } else {
        v.to_le_bytes().to_vec()
    }
}
fn b_f64(v: f64, be: bool) -> Vec<u8> {
    if be {
        v.to_be_bytes().to_vec()
    } else {
        v.to_le_bytes().to_vec()
    }
}
fn b_f32(v: f32, be: bool) -> Vec<u8> {
    if be {
        v.to_be_bytes().to_vec()
    } else {
        v.to_le_bytes().to_vec()
    }
}

/// one sub-grid of an NTv2 file: geographic degrees, two bands (lat shift, lon shift in arc
/// seconds, longitude shift positive east here)
pub struct Sub {
    pub name: String,
    pub parent: String,
    pub g: GGrid,
}

pub fn ntv2_encode(subs: &[Sub], be: bool) -> Vec<u8> {
    let mut out = vec![];
    rec("NUM_OREC", &b_u32(11, be), &mut out);
    rec("NUM_SREC", &b_u32(11, be), &mut out);
    rec("NUM_FILE", &b_u32(subs.len() as u32, be), &mut out);
    rec("GS_TYPE", b"SECONDS ", &mut out);
    rec("VERSION", b"NTv2.0  ", &mut out);
    rec("SYSTEM_F", b"ED50    ", &mut out);
    rec("SYSTEM_T", b"ETRS89  ", &mut out);
    rec("MAJOR_F", &b_f64(6378388.0, be), &mut out);
    rec("MINOR_F", &b_f64(6356911.946, be), &mut out);
    rec("MAJOR_T", &b_f64(6378137.0, be), &mut out);
    rec("MINOR_T", &b_f64(6356752.314, be), &mut out);
    for s in subs {
        let g = &s.g;
        let mut name = s.name.as_bytes().to_vec();
        name.resize(8, b' ');
        let mut parent = s.parent.as_bytes().to_vec();
        parent.resize(8, b' ');
        rec("SUB_NAME", &name, &mut out);
        rec("PARENT", &parent, &mut out);
        rec("CREATED", b"20240101", &mut out);
        rec("UPDATED", b"20240101", &mut out);
        rec("S_LAT", &b_f64(g.lat_s * 3600.0, be), &mut out);
        rec("N_LAT", &b_f64(g.lat_n * 3600.0, be), &mut out);
        rec("E_LONG", &b_f64(-g.lon_e * 3600.0, be), &mut out);
        rec("W_LONG", &b_f64(-g.lon_w * 3600.0, be), &mut out);
        rec("LAT_INC", &b_f64(g.dlat * 3600.0, be), &mut out);
        rec("LONG_INC", &b_f64(g.dlon * 3600.0, be), &mut out);
        rec("GS_COUNT", &b_u32((g.rows * g.cols) as u32, be), &mut out);
        // nodes: from the south-east corner, westwards, then northwards
        for i in (0..g.rows).rev() {
            for j in (0..g.cols).rev() {
                out.extend(b_f32(g.node(i, j, 0), be)); // latitude shift
                out.extend(b_f32(-g.node(i, j, 1), be)); // longitude shift, positive west
                out.extend(b_f32(0.0, be));
                out.extend(b_f32(0.0, be));
            }
        }
    }
    out
}

pub fn hex(b: &[u8]) -> String {
    b.iter().map(|x| format!("{:02x}", x)).collect()
}

/// query points: nodes, edges, interior, margin, outside
pub fn queries(r: &mut Rng, g: &GGrid, n: usize) -> Vec<(f64, f64, &'static str)> {
    let u = g.unit();
    let mut q = vec![];
    for _ in 0..n {
        let kind = r.below(6);
        let (lon, lat, class) = match kind {
            0 => (g.lon_w + g.dlon * r.below(g.cols) as f64, g.lat_n - g.dlat * r.below(g.rows) as f64, "node"),
            1 => (g.lon_w + g.dlon * r.uniform(0.0, (g.cols - 1) as f64), g.lat_n - g.dlat * r.below(g.rows) as f64, "edge"),
            2 => (g.lon_w + g.dlon * r.uniform(0.0, (g.cols - 1) as f64), g.lat_n - g.dlat * r.uniform(0.0, (g.rows - 1) as f64), "interior"),
            3 => (g.lon_w - g.dlon * r.uniform(0.0, 0.5), g.lat_n + g.dlat * r.uniform(0.0, 0.5), "margin"),
            4 => (g.lon_e + g.dlon * r.uniform(0.0, 0.49), g.lat_s + g.dlat * r.uniform(0.0, (g.rows - 1) as f64), "margin"),
            _ => (g.lon_w - g.dlon * r.uniform(0.6, 5.0), g.lat_s - g.dlat * r.uniform(0.6, 5.0), "outside"),
        };
        q.push((lon * u, lat * u, class));
    }
    q
}

fn pts(q: &[(f64, f64, &'static str)]) -> String {
    q.iter().map(|(a, b, _)| format!("{},{}", fbits(*a), fbits(*b))).collect::<Vec<_>>().join(";")
}

pub fn random_tree(r: &mut Rng) -> Vec<Sub> {
    // a root grid and, inside it, children aligned to the parent's nodes (and grandchildren)
    let mut root = GGrid::random(r, 2, false);
    root.rows = 4 + r.below(3);
    root.cols = 4 + r.below(3);
    root.dlat = 1.0;
    root.dlon = 1.0;
    root.lat_n = root.lat_s + (root.rows - 1) as f64;
    root.lon_e = root.lon_w + (root.cols - 1) as f64;
    root.values = (0..root.rows * root.cols * 2).map(|_| (r.range(-2000, 2000) as f32) / 16.0).collect();
    let mut subs = vec![Sub { name: "ROOT".into(), parent: "NONE".into(), g: root.clone() }];
    let nchild = r.below(3);
    for c in 0..nchild {
        // a 2x2-cell window of the parent at half spacing; windows side by side, not overlapping
        let j0 = c * 2;
        if j0 + 2 >= root.cols {
            break;
        }
        let mut g = root.clone();
        g.dlat = 0.5;
        g.dlon = 0.5;
        g.lat_s = root.lat_s;
        g.lat_n = root.lat_s + 2.0;
        g.lon_w = root.lon_w + j0 as f64;
        g.lon_e = g.lon_w + 2.0;
        g.rows = 5;
        g.cols = 5;
        g.values = (0..50).map(|_| (r.range(-2000, 2000) as f32) / 16.0).collect();
        let name = format!("CH{c}");
        if r.chance(1, 2) {
            let mut gg = g.clone();
            gg.dlat = 0.25;
            gg.dlon = 0.25;
            gg.lat_n = gg.lat_s + 1.0;
            gg.lon_e = gg.lon_w + 1.0;
            gg.rows = 5;
            gg.cols = 5;
            gg.values = (0..50).map(|_| (r.range(-2000, 2000) as f32) / 16.0).collect();
            subs.push(Sub { name: format!("GC{c}"), parent: name.clone(), g: gg });
        }
        subs.push(Sub { name, parent: "ROOT".into(), g });
    }
    // the order of sub-grids in the file is arbitrary
    for i in (1..subs.len()).rev() {
        let k = r.below(i + 1);
        subs.swap(i, k);
    }
    subs
}

pub fn generate_c08(g: &mut Gen, thorough: bool) {
    let n = if thorough { 6000 } else { 600 };
    for k in 0..n {
        let bands = 1 + g.rng.below(3);
        let projected = k % 3 == 0;
        let grid = GGrid::random(&mut g.rng, bands, projected);
        // (Gravsoft lists the southern border first, always: the interpolation supports that scan order only)
        let flipped = false;
        let text = grid.gravsoft(&mut g.rng, flipped);
        let q = queries(&mut g.rng, &grid, 12);
        let margin = *g.rng.pick(&[0.0, 0.5, 0.5, 1.0]);
        let class = format!("gravsoft-b{}-{}{}", bands, if projected { "proj" } else { "geo" }, if flipped { "-flipped" } else { "" });
        g.push(format!("GRID\tgravsoft\t{}\t{}\t{}", crate::wire::escape(&text), fbits(margin), pts(&q)), &class, true);
        // reference: node values and geometry, handed to the oracle
        let vals: Vec<String> = grid.values.iter().map(|v| fbits(*v as f64)).collect();
        g.push(
            format!(
                "S_C08\t{}\t{}\t{},{},{},{},{},{},{},{},{},{}\t{}\t{}\t{}",
                crate::wire::escape(&text),
                fbits(margin),
                fbits(grid.lat_n), fbits(grid.lat_s), fbits(grid.lon_w), fbits(grid.lon_e), fbits(grid.dlat), fbits(grid.dlon),
                grid.rows, grid.cols, grid.bands, if projected { 1 } else { 0 },
                vals.join(","),
                pts(&q),
                q.iter().map(|x| x.2).collect::<Vec<_>>().join(",")
            ),
            &format!("oracle-{class}"),
            true,
        );
    }
    // lists of grids: overlaps, first hit, margin pass, null grid
    for _ in 0..(if thorough { 3000 } else { 300 }) {
        let k = 1 + g.rng.below(3);
        let first = GGrid::random(&mut g.rng, 2, false);
        let mut f = vec!["GRIDS".to_string(), k.to_string()];
        let mut o = vec!["S_C08L".to_string(), k.to_string()];
        let mut all = vec![first.clone()];
        for i in 1..k {
            let mut other = GGrid::random(&mut g.rng, 2, false);
            // overlapping or adjacent to the first
            other.lat_s = first.lat_s + g.rng.range(-2, 2) as f64 * first.dlat;
            other.lon_w = first.lon_w + g.rng.range(-3, 3) as f64 * first.dlon;
            other.lat_n = other.lat_s + other.dlat * (other.rows - 1) as f64;
            other.lon_e = other.lon_w + other.dlon * (other.cols - 1) as f64;
            let _ = i;
            all.push(other);
        }
        for gr in &all {
            let t = gr.gravsoft(&mut g.rng, false);
            f.push("gravsoft".into());
            f.push(crate::wire::escape(&t));
            o.push(crate::wire::escape(&t));
        }
        let null = g.rng.chance(1, 3);
        let mut q = queries(&mut g.rng, &first, 8);
        q.extend(queries(&mut g.rng, all.last().unwrap(), 6));
        f.push(if null { "1" } else { "0" }.into());
        f.push(pts(&q));
        o.push(if null { "1" } else { "0" }.into());
        o.push(pts(&q));
        g.push(f.join("\t"), "grid-list", true);
        g.push(o.join("\t"), "oracle-grid-list", true);
    }
    // NTv2 hierarchies
    for _ in 0..(if thorough { 3000 } else { 300 }) {
        let subs = random_tree(&mut g.rng);
        let be = g.rng.chance(1, 3);
        let bytes = ntv2_encode(&subs, be);
        let root = subs.iter().find(|s| s.parent == "NONE").unwrap();
        let mut q = queries(&mut g.rng, &root.g, 10);
        for s in &subs {
            q.extend(queries(&mut g.rng, &s.g, 4));
        }
        let margin = *g.rng.pick(&[0.0, 0.5]);
        g.push(format!("GRID\tntv2\t{}\t{}\t{}", hex(&bytes), fbits(margin), pts(&q)), if be { "ntv2-be" } else { "ntv2-le" }, true);
        // the oracle gets the tree: name, parent, geometry, values
        let mut o = vec!["S_C08N".to_string(), hex(&bytes), fbits(margin), subs.len().to_string()];
        for s in &subs {
            o.push(s.name.clone());
            o.push(s.parent.clone());
            o.push(format!("{},{},{},{},{},{},{},{}", fbits(s.g.lat_n), fbits(s.g.lat_s), fbits(s.g.lon_w), fbits(s.g.lon_e), fbits(s.g.dlat), fbits(s.g.dlon), s.g.rows, s.g.cols));
            o.push(s.g.values.iter().map(|v| fbits(*v as f64)).collect::<Vec<_>>().join(","));
        }
        o.push(pts(&q));
        g.push(o.join("\t"), "oracle-ntv2", true);
    }
    // grid operators over lists of constant-valued grids: first hit, then first within the margin
    for i in 0..(if thorough { 2000 } else { 240 }) {
        let kind = ["gridshift", "deformation", "gridshift", "deformation", "deflection"][i % 5];
        let bands = match kind {
            "gridshift" => 2,
            "deformation" => 3,
            _ => 1,
        };
        let k = 2 + g.rng.below(2);
        // 2x2 grids of one cell each, side by side along the parallel with gaps of 0 .. 1.2 cells,
        // sometimes overlapping
        let d = 1.0;
        let lat_s = g.rng.range(40, 60) as f64;
        let mut lon = g.rng.range(0, 20) as f64;
        let mut f = vec!["S_C08D".to_string(), kind.to_string(), k.to_string()];
        let mut geoms = vec![];
        for j in 0..k {
            let v = (j + 1) as f32;
            let gr = GGrid { lat_n: lat_s + d, lat_s, lon_w: lon, lon_e: lon + d, dlat: d, dlon: d, rows: 2, cols: 2, bands, values: vec![v; 4 * bands], projected: false };
            f.push(crate::wire::escape(&gr.gravsoft(&mut g.rng, false)));
            f.push(format!("{},{},{},{},{},{}", fbits(gr.lat_n), fbits(gr.lat_s), fbits(gr.lon_w), fbits(gr.lon_e), fbits(gr.dlat), fbits(gr.dlon)));
            lon += d + *g.rng.pick(&[0.0, 0.3, 0.6, 0.8, 1.2, -0.5]);
            geoms.push(gr);
        }
        let null = g.rng.chance(1, 4);
        let mut q: Vec<(f64, f64, &'static str)> = vec![];
        let u = std::f64::consts::PI / 180.0;
        for gr in &geoms {
            for _ in 0..5 {
                q.push(((gr.lon_w + g.rng.uniform(-0.7, 1.7)) * u, (gr.lat_s + g.rng.uniform(-0.7, 1.7)) * u, "any"));
            }
        }
        f.push(if null { "1" } else { "0" }.into());
        f.push(pts(&q));
        g.push(f.join("\t"), &format!("oracle-oplist-{kind}"), true);
    }
    // operators on the shipped grids: conventions of sign, order and unit
    for def in [
        "gridshift grids=test.datum", "gridshift grids=test.geoid", "gridshift grids=5458.gsb", "gridshift grids=5458_with_subgrid.gsb",
        "gridshift grids=test_subset.datum,test.datum", "gridshift grids=@missing.datum,test.datum", "gridshift grids=test_subset.datum,@null",
        "deformation dt=1 grids=test.deformation", "deformation raw dt=2 grids=test.deformation", "deflection grids=test.geoid",
        "gridshift grids=100800401.gsb",
    ] {
        g.push(format!("S_C08O\t{}", crate::wire::escape(def)), "oracle-operator", true);
    }
}
