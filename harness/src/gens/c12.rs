//! C12: stack programs
use super::{op_line, probe_data, Gen};

#[derive(Clone, Debug, PartialEq)]
pub enum Ins {
    Push(Vec<u8>),
    Pop(Vec<u8>),
    Flip(Vec<u8>),
    Roll(i64, i64),
    Unroll(i64, i64),
    Swap,
    LPush([bool; 4]),
    LPop([bool; 4]),
    Addone,
    AddoneInv,
    Swap12,
}

fn idx(a: &[u8]) -> String {
    a.iter().map(|x| x.to_string()).collect::<Vec<_>>().join(",")
}
fn flags(f: &[bool; 4]) -> String {
    (0..4).filter(|i| f[*i]).map(|i| format!(" v_{}", i + 1)).collect::<String>()
}

impl Ins {
    pub fn text(&self) -> String {
        match self {
            Ins::Push(a) => format!("stack push={}", idx(a)),
            Ins::Pop(a) => format!("stack pop={}", idx(a)),
            Ins::Flip(a) => format!("stack flip={}", idx(a)),
            Ins::Roll(m, n) => format!("stack roll={m},{n}"),
            Ins::Unroll(m, n) => format!("stack unroll={m},{n}"),
            Ins::Swap => "stack swap".to_string(),
            Ins::LPush(f) => format!("push{}", flags(f)),
            Ins::LPop(f) => format!("pop{}", flags(f)),
            Ins::Addone => "addone".to_string(),
            Ins::AddoneInv => "addone inv".to_string(),
            Ins::Swap12 => "axisswap order=2,1".to_string(),
        }
    }
    pub fn code(&self) -> String {
        let d = |a: &[u8]| a.iter().map(|x| x.to_string()).collect::<String>();
        let fl = |f: &[bool; 4]| f.iter().map(|b| if *b { '1' } else { '0' }).collect::<String>();
        match self {
            Ins::Push(a) => format!("P{}", d(a)),
            Ins::Pop(a) => format!("O{}", d(a)),
            Ins::Flip(a) => format!("F{}", d(a)),
            Ins::Roll(m, n) => format!("R{m},{n}"),
            Ins::Unroll(m, n) => format!("U{m},{n}"),
            Ins::Swap => "S".to_string(),
            Ins::LPush(f) => format!("L{}", fl(f)),
            Ins::LPop(f) => format!("M{}", fl(f)),
            Ins::Addone => "A".to_string(),
            Ins::AddoneInv => "B".to_string(),
            Ins::Swap12 => "X".to_string(),
        }
    }
    pub fn decode(s: &str) -> Option<Ins> {
        let (h, t) = s.split_at(1);
        let d = |t: &str| t.chars().map(|c| c.to_digit(10).unwrap_or(1) as u8).collect::<Vec<u8>>();
        let fl = |t: &str| {
            let v: Vec<bool> = t.chars().map(|c| c == '1').collect();
            [v[0], v[1], v[2], v[3]]
        };
        let mn = |t: &str| {
            let v: Vec<i64> = t.split(',').map(|x| x.parse().unwrap_or(0)).collect();
            (v[0], v[1])
        };
        Some(match h {
            "P" => Ins::Push(d(t)),
            "O" => Ins::Pop(d(t)),
            "F" => Ins::Flip(d(t)),
            "R" => Ins::Roll(mn(t).0, mn(t).1),
            "U" => Ins::Unroll(mn(t).0, mn(t).1),
            "S" => Ins::Swap,
            "L" => Ins::LPush(fl(t)),
            "M" => Ins::LPop(fl(t)),
            "A" => Ins::Addone,
            "B" => Ins::AddoneInv,
            "X" => Ins::Swap12,
            _ => return None,
        })
    }
    pub fn is_stack(&self) -> bool {
        !matches!(self, Ins::Addone | Ins::AddoneInv | Ins::Swap12)
    }
}

pub fn prog_text(p: &[Ins]) -> String {
    p.iter().map(|i| i.text()).collect::<Vec<_>>().join(" | ")
}
pub fn prog_code(p: &[Ins]) -> String {
    p.iter().map(|i| i.code()).collect::<Vec<_>>().join(";")
}

/// all index lists of length 1..=maxlen over 1..=4
pub fn index_lists(maxlen: usize) -> Vec<Vec<u8>> {
    let mut out: Vec<Vec<u8>> = vec![];
    let mut level: Vec<Vec<u8>> = vec![vec![]];
    for _ in 0..maxlen {
        let mut next = vec![];
        for l in &level {
            for a in 1..=4u8 {
                let mut m = l.clone();
                m.push(a);
                next.push(m);
            }
        }
        out.extend(next.iter().cloned());
        level = next;
    }
    out
}

/// the instruction set of the property text: index lists up to `maxlen`, rolls up to `maxm`
pub fn instruction_set(maxlen: usize, maxm: i64, legacy: bool) -> Vec<Ins> {
    let mut v = vec![];
    for l in index_lists(maxlen) {
        v.push(Ins::Push(l.clone()));
        v.push(Ins::Pop(l.clone()));
        v.push(Ins::Flip(l));
    }
    for m in 1..=maxm {
        for n in -(m - 1)..=(m - 1) {
            v.push(Ins::Roll(m, n));
            v.push(Ins::Unroll(m, n));
        }
    }
    v.push(Ins::Swap);
    if legacy {
        for bits in 0..16u8 {
            let f = [bits & 1 != 0, bits & 2 != 0, bits & 4 != 0, bits & 8 != 0];
            v.push(Ins::LPush(f));
            v.push(Ins::LPop(f));
        }
    }
    v
}

fn emit(g: &mut Gen, prog: &[Ins], dir: &str, n: usize, class: &str) {
    let def = prog_text(prog);
    let data = probe_data(n);
    let nontrivial = prog.iter().filter(|i| i.is_stack()).count() >= 1 && n > 0;
    g.push(op_line("default", &[], &[], &def, "apply", dir, &data), class, nontrivial);
    // the same program against the abstract machine (search oracle on the implementation)
    g.push(format!("S_C12\t{}\t{}\t{}", prog_code(prog), dir, data), &format!("oracle-{class}"), nontrivial);
}

fn random_ins(g: &mut Gen) -> Ins {
    let r = &mut g.rng;
    let list = |r: &mut crate::rng::Rng| -> Vec<u8> {
        let len = 1 + r.below(4);
        (0..len).map(|_| 1 + r.below(4) as u8).collect()
    };
    match r.below(14) {
        0 | 1 | 2 => Ins::Push(list(r)),
        3 | 4 => Ins::Pop(list(r)),
        5 => Ins::Flip(list(r)),
        6 | 7 => {
            let m = r.range(1, 8);
            let n = r.range(-(m - 1), m - 1);
            if r.chance(1, 2) {
                Ins::Roll(m, n)
            } else {
                Ins::Unroll(m, n)
            }
        }
        8 => Ins::Swap,
        9 => {
            let b = r.below(16) as u8;
            let f = [b & 1 != 0, b & 2 != 0, b & 4 != 0, b & 8 != 0];
            if r.chance(1, 2) {
                Ins::LPush(f)
            } else {
                Ins::LPop(f)
            }
        }
        10 | 11 => Ins::Addone,
        12 => Ins::AddoneInv,
        _ => Ins::Swap12,
    }
}

pub fn generate(g: &mut Gen, thorough: bool) {
    // a macro whose body starts with a stack step is a pipeline of its own (with a stack of its own), forward and backward
    super::lang::stack_led_macros(g, thorough);
    // 1. every single instruction of the full set, on a deep stack and on an empty one, with the
    //    stack made visible afterwards, both directions
    let full = instruction_set(4, 8, true);
    let deep = vec![Ins::Push(vec![1, 2, 3, 4]), Ins::Addone, Ins::Push(vec![4, 3, 2, 1])];
    let show_a = vec![Ins::Pop(vec![1, 2, 3, 4])];
    let show_b = vec![Ins::Pop(vec![1, 1, 1, 1]), Ins::Pop(vec![1, 2, 3, 4])];
    for ins in &full {
        for (pre, pc) in [(&deep, "deep"), (&vec![Ins::Addone], "empty")] {
            for (suf, sc) in [(&show_a, "a"), (&show_b, "b")] {
                if !thorough && sc == "b" && pc == "empty" {
                    continue;
                }
                let mut p = pre.clone();
                p.push(ins.clone());
                p.extend(suf.iter().cloned());
                for dir in ["F", "I"] {
                    emit(g, &p, dir, 2, &format!("single-{pc}"));
                }
            }
        }
    }
    // 2. all programs of length 2 (thorough: 3) over a reduced instruction set
    let small = instruction_set(if thorough { 2 } else { 1 }, if thorough { 3 } else { 2 }, true);
    let small: Vec<Ins> = if thorough {
        small
    } else {
        small.into_iter().filter(|i| !matches!(i, Ins::LPush(f) | Ins::LPop(f) if f.iter().filter(|b| **b).count() > 2)).collect()
    };
    for a in &small {
        for b in &small {
            let p = vec![Ins::Push(vec![1, 2]), a.clone(), b.clone(), Ins::Pop(vec![3, 4])];
            let dir = if g.rng.chance(1, 2) { "F" } else { "I" };
            emit(g, &p, dir, 1, "pairs");
        }
    }
    // 2b. ill-formed sub-commands are rejected at instantiation, well-formed ones accepted
    let mut shapes: Vec<(bool, String)> = vec![];
    for key in ["push", "pop", "flip"] {
        for bad in ["0", "5", "-1", "1.5", "2.25", "3.999", "1:30", "0.5", "4.0001", "1,2,2.5", "1,5", "0,1", "1e0.5", "NaN", "inf", "-0.5", "1,2,3,4,4.5", "0:30",
            // an element that is no number (or nothing) spoils the list: it is not skipped
            "1,x", "2,,1", "foo,1", "1,", ",1", "1,2,x,3"] {
            shapes.push((false, format!("stack {key}={bad}")));
        }
        for good in ["1", "4", "1,2,3,4", "4,4,4", "2.0", "1e0", "1,1,1,1,1"] {
            shapes.push((true, format!("stack {key}={good}")));
        }
    }
    for key in ["roll", "unroll"] {
        for bad in ["2", "1.5,1", "3,0.5", "2,2", "2,3", "3,-3", "1,2,3", "-2.5,1", "NaN,1", "3,NaN", "3,3", "8,-8", "1,1", "1,-1", "0,0", "2,1,", "2,x", "x,1", "3,,1"] {
            shapes.push((false, format!("stack {key}={bad}")));
        }
        for good in ["3,2", "3,-2", "8,7", "2,1", "2,0", "3.0,1.0"] {
            shapes.push((true, format!("stack {key}={good}")));
        }
    }
    for bad in ["stack", "stack push=1 pop=1", "stack swap drop", "stack roll=2,1 swap", "stack push", "stack bogus=1"] {
        shapes.push((false, bad.to_string()));
    }
    for good in ["stack swap", "stack drop"] {
        shapes.push((true, good.to_string()));
    }
    // a directional modifier is not a sub-command: it neither replaces one nor counts as a second one
    for bad in ["stack omit_fwd", "stack omit_inv", "stack inv", "stack omit_fwd omit_inv", "omit_inv stack"] {
        shapes.push((false, bad.to_string()));
    }
    for good in ["stack push=1,2 omit_inv", "stack pop=1 omit_fwd", "omit_fwd stack swap", "stack roll=2,1 omit_inv omit_fwd", "stack push=1 inv", "inv stack flip=1 omit_fwd"] {
        shapes.push((true, good.to_string()));
    }
    for (ok, def) in &shapes {
        let class = if *ok { "wellformed" } else { "illformed" };
        g.push(op_line("default", &[], &[], def, "apply", "F", &probe_data(1)), &format!("shape-{class}"), true);
        // inside a pipeline as well (a rejected step rejects the pipeline)
        g.push(op_line("default", &[], &[], &format!("stack push=1,2,3,4,1,2,3,4 | {def} | addone"), "apply", "F", &probe_data(1)), &format!("shape-{class}-step"), true);
    }
    // the documented rules, against the implementation (the model decides the rest by agreement)
    for (ok, def) in &shapes {
        // (the instruction set is all (m, n) with |n| < m: |n| = m is outside it, and refused)
        let certain = !(def.contains("roll=2,3") || def.contains("1,1,1,1,1") || def.contains("1,2,3,4,4.5") || def.contains("roll=2,0") || def.contains("-2.5,1"));
        if certain {
            g.push(format!("S_C12R\t{}\t{}", if *ok { 1 } else { 0 }, crate::wire::escape(def)), "oracle-shape", true);
        }
    }
    // 3. random long programs, interleaved with value-changing steps, operand sets of size 0..50
    let nrandom = if thorough { 40000 } else { 2500 };
    for _ in 0..nrandom {
        let len = 1 + g.rng.below(12);
        let mut p = vec![];
        for _ in 0..len {
            let i = random_ins(g);
            p.push(i);
        }
        if p.len() == 1 {
            p.push(Ins::Addone);
        }
        let n = *g.rng.pick(&[0usize, 1, 1, 2, 3, 5, 50]);
        let dir = if g.rng.chance(1, 2) { "F" } else { "I" };
        emit(g, &p, dir, n, "random");
    }
}
