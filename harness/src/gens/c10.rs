//! C10: honest counts, NaN for failed tuples, untouched axes, NaN propagation
use super::proj::{self};
use super::{op_line, Gen};
use crate::rng::Rng;
use crate::wire::{data_of, escape};

/// one case: context kind, definition, direction, the elements the operator works on, the
/// elements it must leave alone, tuples and their classes (i = inside the domain: must be
/// transformed and counted; o = outside a declared limit: must be NaN and not counted;
/// e = edge / unclassified: only the general rules)
fn case(g: &mut Gen, kind: &str, def: &str, dir: &str, worked: &str, kept: &str, pts: &[[f64; 4]], classes: &str, class: &str, model: bool) {
    // the elements an operator leaves alone come back bit for bit - the sign of a zero included: a copy of the first
    // point of the domain with minus zero in them
    let mut pts: Vec<[f64; 4]> = pts.to_vec();
    let mut classes = classes.to_string();
    if !kept.is_empty() {
        if let Some(at) = classes.chars().position(|c| c == 'i') {
            if at < pts.len() {
                let mut q = pts[at];
                for c in kept.chars() {
                    // (height and time only: the first two elements say where the point is)
                    if let Some(j) = c.to_digit(10).filter(|j| *j >= 2) {
                        q[j as usize] = -0.0;
                    }
                }
                pts.push(q);
                classes.push('i');
            }
        }
    }
    let (pts, classes) = (&pts[..], classes.as_str());
    g.push(format!("S_C10\t{kind}\t{}\t{dir}\t{worked}\t{kept}\t{}\t{classes}", escape(def), data_of(pts)), &format!("oracle-{class}"), true);
    if model {
        g.push(op_line("default", &[], &[], def, "apply", dir, &data_of(pts)), &format!("model-{class}"), true);
    }
}

fn nan_variants(r: &mut Rng, p: [f64; 4]) -> Vec<[f64; 4]> {
    let mut out = vec![];
    for mask in 1..16u32 {
        if r.chance(1, 2) {
            let mut q = p;
            for j in 0..4 {
                if mask & (1 << j) != 0 {
                    q[j] = f64::NAN;
                }
            }
            out.push(q);
        }
    }
    // an infinite element is not NaN: a tuple that is not counted must say so itself
    for j in 0..4 {
        if r.chance(1, 2) {
            let mut q = p;
            q[j] = if r.chance(1, 2) { f64::INFINITY } else { f64::NEG_INFINITY };
            out.push(q);
        }
    }
    out
}

pub fn generate(g: &mut Gen, thorough: bool) {
    let rounds = if thorough { 40 } else { 5 };
    // the plane projections: inside / NaN in any subset / beyond the declared limits
    for name in proj::PROJECTIONS {
        for _ in 0..rounds {
            let d = proj::random(&mut g.rng, name);
            let def = d.def();
            let mut pts = proj::points(&mut g.rng, &d, 6);
            let mut classes = "i".repeat(pts.len());
            let base = pts[0];
            for q in nan_variants(&mut g.rng, base) {
                pts.push(q);
                classes.push('e');
            }
            // the same meridians written a turn further west or east: longitudes are angles
            if name != "webmerc" && name != "merc" {
                for (dl, turn) in [(2.0, -360.0), (-1.5, 360.0), (0.5, 720.0)] {
                    pts.push([(d.centre.0 + dl + turn as f64).to_radians(), (d.centre.1 + 1.0).to_radians(), 0.0, 2000.0]);
                    classes.push('i');
                }
            }
            // extreme but valid positions
            for (lon, lat) in [(179.999, 0.0), (-180.0, 45.0), (0.0, 89.999), (12.0, -89.999), (d.centre.0 + 90.0, 0.0), (d.centre.0 - 90.0, 10.0), (d.centre.0 + 180.0, -d.centre.1)] {
                pts.push([(lon as f64).to_radians(), (lat as f64).to_radians(), 0.0, 2000.0]);
                classes.push('e');
            }
            case(g, "default", &def, "F", "01", "23", &pts, &classes, &format!("{name}-fwd"), true);
            // inverse: images of domain points (inside), points far away, NaN subsets
            let qs = 6.37e6 * d.k_0;
            let mut inv: Vec<[f64; 4]> = vec![];
            let mut icl = String::new();
            for _ in 0..6 {
                inv.push([d.x_0 + g.rng.uniform(-0.3, 0.3) * qs, d.y_0 + (d.centre.1.to_radians() + g.rng.uniform(-0.2, 0.2)) * qs, g.rng.uniform(0.0, 100.0), 2010.0]);
                icl.push('e');
            }
            // the false origin itself and its immediate surroundings (the inverse may have a shortcut there): transformed,
            // counted, height and time untouched
            for (dx, dy) in [(0.0, 0.0), (1e-11, 0.0), (0.0, -1e-9), (1e-3, 1e-3)] {
                inv.push([d.x_0 + dx, d.y_0 + dy, 1234.5, 2020.25]);
                icl.push(if name == "webmerc" || name == "merc" || name == "laea" || name == "somerc" || name == "lcc" { 'i' } else { 'e' });
            }
            if name == "tmerc" || name == "utm" {
                // around the strip limit: 2.623395162778 scaled radii from the central meridian
                for f in [2.55, 2.60, 2.62, 2.6233, 2.6235, 2.63, 2.7, 3.5, -2.55, -2.62, -2.6233, -2.6235, -2.7] {
                    inv.push([d.x_0 + f * 6.3675e6 * d.k_0, d.y_0 + 1.0e6, 0.0, 0.0]);
                    icl.push(if f.abs() < 2.6 { 'i' } else if f.abs() > 2.65 { 'o' } else { 'e' });
                }
            }
            if name == "laea" {
                for f in [2.2, 3.0, 10.0] {
                    inv.push([d.x_0 + f * 6.4e6, d.y_0, 0.0, 0.0]);
                    icl.push('o');
                }
            }
            let base = inv[0];
            for q in nan_variants(&mut g.rng, base) {
                inv.push(q);
                icl.push('e');
            }
            case(g, "default", &def, "I", "01", "23", &inv, &icl, &format!("{name}-inv"), true);
        }
    }
    // the aspects of a projection are branches of its code: the polar and equatorial aspects of laea, the
    // one-parallel and polar forms of lcc, merc by lat_ts - each with NaN in every subset of the elements
    for (def, centre) in [
        ("laea lat_0=90 lon_0=10 x_0=2000000 y_0=2000000", (10.0, 80.0)), ("laea lat_0=-90 x_0=500 y_0=-500 ellps=intl", (0.0, -75.0)), ("laea lat_0=0 lon_0=-70", (-70.0, 5.0)),
        ("laea lat_0=90", (0.0, 89.0)), ("lcc lat_1=80 lat_0=85 k_0=0.994 x_0=2000000 y_0=2000000", (0.0, 80.0)), ("lcc lat_1=-60 lon_0=140 y_0=100", (140.0, -60.0)),
        ("merc lat_ts=56 x_0=100", (0.0, 50.0)), ("somerc lat_0=46.95 lon_0=7.44 x_0=2600000 y_0=1200000 ellps=bessel", (7.44, 46.95)),
    ] {
        let mut pts: Vec<[f64; 4]> = (0..5).map(|_| [(centre.0 + g.rng.uniform(-20.0, 20.0) as f64).to_radians(), (centre.1 + g.rng.uniform(-8.0, 8.0) as f64).to_radians(), 12.5, 2020.0]).collect();
        let mut classes = "i".repeat(pts.len());
        for base in [pts[0], pts[1]] {
            for mask in 1..16u32 {
                let mut q = base;
                for j in 0..4 {
                    if mask & (1 << j) != 0 {
                        q[j] = f64::NAN;
                    }
                }
                pts.push(q);
                classes.push('e');
            }
        }
        case(g, "default", def, "F", "01", "23", &pts, &classes, "aspects-fwd", true);
        let mut inv: Vec<[f64; 4]> = vec![[310000.0, 2100000.0, 3.0, 2001.0], [2100000.0, 1900000.0, 0.0, 0.0]];
        let mut icl = "ee".to_string();
        for mask in 1..16u32 {
            let mut q = inv[0];
            for j in 0..4 {
                if mask & (1 << j) != 0 {
                    q[j] = f64::NAN;
                }
            }
            inv.push(q);
            icl.push('e');
        }
        case(g, "default", def, "I", "01", "23", &inv, &icl, "aspects-inv", true);
    }
    // the inverse geodesic problem with a NaN in one element while the other pair coincides (same latitude, or same
    // longitude, at both ends): no answer, not "the points coincide"
    for ellps in ["GRS80", "intl", "sphere"] {
        let nan = f64::NAN;
        let pts = vec![
            [55.0, nan, 55.0, 12.0], [55.0, 12.0, 55.0, nan], [nan, 12.0, 56.0, 12.0], [55.0, 12.0, nan, 12.0], [0.0, nan, 0.0, 0.0], [nan, 0.0, 0.0, 0.0],
            [55.0, 12.0, 56.0, 13.0], [nan, nan, 1.0, 2.0], [1.0, 2.0, nan, nan],
            // (clean lines along a parallel and along a meridian: the oracle puts NaN into each of their elements)
            [55.0, 12.0, 55.0, 13.0], [55.0, 12.0, 56.0, 12.0], [0.0, 0.0, 0.0, 1.0],
        ];
        case(g, "default", &format!("geodesic ellps={ellps}"), "I", "0123", "", &pts, "eeeeeeieeiii", "geodesic-inverse-nan-with-coinciding-elements", true);
        let fw = vec![[55.0, 12.0, nan, 1000.0], [55.0, 12.0, 45.0, nan], [nan, 12.0, 0.0, 0.0], [55.0, nan, 0.0, 0.0], [55.0, 12.0, 45.0, 1000.0]];
        case(g, "default", &format!("geodesic ellps={ellps}"), "F", "0123", "", &fw, "eeeei", "geodesic-forward-nan", true);
    }
    // beyond the disc of laea, in the polar aspects as in the others: NaN, not counted
    for (def, x_0, y_0) in [("laea lat_0=90 lon_0=10 x_0=2000000 y_0=2000000", 2.0e6, 2.0e6), ("laea lat_0=-90 x_0=500 y_0=-500 ellps=intl", 500.0, -500.0), ("laea lat_0=90", 0.0, 0.0), ("laea lat_0=52 lon_0=10", 0.0, 0.0), ("laea lat_0=0 lon_0=-70", 0.0, 0.0)] {
        let inv = vec![[x_0 + 1.0e6, y_0 - 2.0e6, 3.0, 2001.0], [x_0 + 2.0e7, y_0, 7.0, 2001.0], [x_0, y_0 - 1.5e7, 0.0, 0.0], [x_0 + 1.3e7, y_0 + 1.3e7, 0.0, 0.0], [x_0 - 5.0e5, y_0 + 1.0e6, 0.0, 0.0], [x_0 - 1.0e9, y_0, 0.0, 0.0]];
        case(g, "default", def, "I", "01", "23", &inv, "ioooio", "laea-beyond-the-disc", true);
    }
    // the apex of a cone (the pole the cone points to) is a point like any other: transformed, counted - once
    for (def, x_0, y_0) in [("lcc lat_1=57 lat_0=90 lon_0=12", 0.0, 0.0), ("lcc lat_1=-40 lat_2=-50 lat_0=-90 x_0=1000 y_0=-2000 ellps=intl", 1000.0, -2000.0), ("lcc lat_1=33 lat_2=45 lat_0=90 k_0=0.9996 x_0=500000", 500000.0, 0.0)] {
        let inv = vec![[x_0, y_0, 7.0, 2001.0], [x_0 + 1000.0, y_0 - 5.0e6 * (if def.contains("lat_0=-90") { -1.0 } else { 1.0 }), 0.0, 0.0], [x_0, y_0, 0.0, 0.0]];
        case(g, "default", def, "I", "01", "23", &inv, "iii", "lcc-apex-inv", true);
        let pole = if def.contains("lat_0=-90") { -std::f64::consts::FRAC_PI_2 } else { std::f64::consts::FRAC_PI_2 };
        let fwd = vec![[0.3, pole, 7.0, 2001.0], [0.2, pole * 0.6, 0.0, 0.0], [-2.0, pole, 0.0, 0.0]];
        case(g, "default", def, "F", "01", "23", &fwd, "iii", "lcc-apex-fwd", true);
    }
    // the steps that work on the stack count tuples, not stack levels: sets of one, three and seven tuples through
    // programs that leave one to four levels on the stack
    for n in [1usize, 3, 7] {
        let pts: Vec<[f64; 4]> = (0..n).map(|i| [1.0 + i as f64, 20.0 + i as f64, 300.0, 2000.0 + i as f64]).collect();
        let classes = "i".repeat(n);
        for def in [
            "push v_2 | addone | pop v_2", "push v_2 v_3 | addone | pop v_3 v_2", "push v_2 | push v_3 | push v_4 | addone", "push v_1 v_2 | push v_3 v_4 | addone",
            "stack push=2 | addone | stack pop=2", "stack push=2,3,4 | addone", "stack push=2,3 | stack swap | addone | stack pop=3,2", "stack push=2,3,4 | stack roll=3,1 | addone | stack pop=2,3,4",
            "push v_2 | addone | pop v_2 | push v_3 | pop v_3",
        ] {
            // (backwards only the programs that take off what they put on: the others find the stack empty)
            let balanced = !def.ends_with("| addone");
            for dir in ["F", "I"] {
                if dir == "I" && !balanced {
                    continue;
                }
                case(g, "default", def, dir, "0", "", &pts, &classes, "stack-steps-count-tuples", true);
            }
        }
    }
    // lcc: the opposite pole cannot be projected
    for (def, lat) in [("lcc lat_1=57 lat_2=60", -90.0f64), ("lcc lat_1=-33", 90.0), ("lcc lat_1=40 lat_0=30 lon_0=10 x_0=5", -90.0)] {
        let pts = vec![[0.2, lat.to_radians(), 5.0, 2001.0], [0.2, -lat.to_radians() * 0.5, 5.0, 2001.0]];
        case(g, "default", def, "F", "01", "23", &pts, "oi", "lcc-opposite-pole", true);
    }
    // three dimensional conversions and datum shifts
    for _ in 0..rounds {
        let ellps = *g.rng.pick(&proj::ELLPS);
        let geo: Vec<[f64; 4]> = (0..6).map(|_| [g.rng.uniform(-3.1, 3.1), g.rng.uniform(-1.5, 1.5), g.rng.uniform(-1000.0, 9000.0), g.rng.uniform(1990.0, 2030.0)]).collect();
        let cart: Vec<[f64; 4]> = (0..6).map(|_| [g.rng.uniform(-6.4e6, 6.4e6), g.rng.uniform(-6.4e6, 6.4e6), g.rng.uniform(-6.4e6, 6.4e6), 2000.0]).filter(|c| (c[0] * c[0] + c[1] * c[1] + c[2] * c[2]).sqrt() > 3e6).collect();
        let mut gp = geo.clone();
        let mut gcl = "i".repeat(gp.len());
        for q in nan_variants(&mut g.rng, geo[0]) {
            gp.push(q);
            gcl.push('e');
        }
        let mut cp = cart.clone();
        let mut ccl = "i".repeat(cp.len());
        if let Some(c0) = cart.first() {
            for q in nan_variants(&mut g.rng, *c0) {
                cp.push(q);
                ccl.push('e');
            }
        }
        case(g, "default", &format!("cart ellps={ellps}"), "F", "012", "3", &gp, &gcl, "cart-fwd", true);
        case(g, "default", &format!("cart ellps={ellps}"), "I", "012", "3", &cp, &ccl, "cart-inv", true);
        let h = format!("helmert x={} y={} z={} rx=0.1 ry=-0.2 rz=0.3 s=1.5 convention=position_vector", g.rng.range(-200, 200), g.rng.range(-200, 200), g.rng.range(-200, 200));
        case(g, "default", &h, "F", "012", "3", &cp, &ccl, "helmert-static-fwd", true);
        case(g, "default", &h, "I", "012", "3", &cp, &ccl, "helmert-static-inv", true);
        let hd = format!("{h} dx=0.01 dy=-0.02 dz=0.03 drx=0.001 ds=0.01 t_epoch=2010");
        case(g, "default", &hd, "F", "012", "3", &cp, &ccl, "helmert-dynamic-fwd", true);
        case(g, "default", &hd, "I", "012", "3", &cp, &ccl, "helmert-dynamic-inv", true);
        let m = format!("molodensky dx=84.87 dy=96.49 dz=116.95 ellps_0=WGS84 ellps_1=intl{}", if g.rng.chance(1, 2) { " abridged" } else { "" });
        let gp2: Vec<[f64; 4]> = gp.iter().map(|p| [p[0], p[1].clamp(-1.4, 1.4), p[2], p[3]]).collect();
        case(g, "default", &m, "F", "012", "3", &gp2, &gcl, "molodensky-fwd", true);
        case(g, "default", &m, "I", "012", "3", &gp2, &gcl, "molodensky-inv", true);
    }
    // geodesics: ordinary lines and the near-antipodal zone
    {
        let f: Vec<[f64; 4]> = (0..8).map(|_| [g.rng.uniform(-80.0, 80.0), g.rng.uniform(-170.0, 170.0), g.rng.uniform(-180.0, 180.0), g.rng.uniform(1.0, 1.5e7)]).collect();
        case(g, "default", "geodesic", "F", "0123", "", &f, &"i".repeat(f.len()), "geodesic-fwd", true);
        let mut i: Vec<[f64; 4]> = (0..8).map(|_| [g.rng.uniform(-70.0, 70.0), g.rng.uniform(-170.0, 170.0), g.rng.uniform(-70.0, 70.0), g.rng.uniform(-170.0, 170.0)]).collect();
        let mut icl = "e".repeat(i.len());
        i.push([10.0, 20.0, 50.0, 60.0]);
        icl.push('i');
        for k in 0..6 {
            i.push([30.0, 0.0, -30.0 + 0.001 * k as f64, 179.999]);
            icl.push('e');
        }
        case(g, "default", "geodesic", "I", "0123", "", &i, &icl, "geodesic-inv", true);
        // nearly antipodal pairs: no solution, or a solution that leads back
        let mut r: Vec<[f64; 4]> = vec![];
        for (la, lo, lb, lo2) in [(0.0, 0.0, 0.5, 179.7), (0.0, 0.0, 0.0, 179.9), (30.0, 0.0, -30.0, 179.999), (10.0, 20.0, -10.2, -160.3), (-45.0, 100.0, 44.9, -80.2), (0.0, 0.0, 0.3, 179.0), (20.0, 10.0, -19.0, -171.5)] {
            r.push([la, lo, lb, lo2]);
        }
        for _ in 0..6 {
            let (la, lo) = (g.rng.uniform(-60.0, 60.0), g.rng.uniform(-170.0, 170.0));
            r.push([la, lo, -la + g.rng.uniform(-0.6, 0.6), lo + 180.0 + g.rng.uniform(-0.6, 0.6)]);
        }
        case(g, "default", "geodesic reversible", "I", "0123", "", &r, &"v".repeat(r.len()), "geodesic-near-antipodal", true);
    }
    // grids: inside and outside the coverage, with and without the null grid
    for (def, worked, kept) in [
        ("gridshift grids=test.datum", "01", "23"), ("gridshift grids=test.datum,@null", "01", "23"), ("gridshift grids=test.geoid", "2", "013"),
        ("gridshift grids=test.geoid,@null", "2", "013"), ("gridshift grids=5458.gsb", "01", "23"), ("gridshift grids=@missing.gsb,test.datum", "01", "23"),
    ] {
        let null = def.contains("@null");
        let mut pts = vec![];
        let mut cl = String::new();
        for _ in 0..6 {
            pts.push([g.rng.uniform(9.0, 15.0).to_radians(), g.rng.uniform(55.0, 57.0).to_radians(), g.rng.uniform(0.0, 100.0), 2000.0]);
            cl.push('i');
        }
        for (lon, lat) in [(30.0f64, 56.0f64), (12.0, 20.0), (-100.0, -40.0), (12.0, 70.0)] {
            pts.push([lon.to_radians(), lat.to_radians(), 10.0, 2000.0]);
            cl.push(if null { 'u' } else { 'o' });
        }
        // the half-cell margin band on every side (test grids: 54-58 N, 8-16 E, cells of one degree):
        // whatever comes back counted must be right
        for (lon, lat) in [(12.0f64, 53.501f64), (12.0, 53.505), (12.0, 53.51), (11.3, 53.6), (12.0, 53.9), (12.0, 58.1), (12.0, 58.49), (12.0, 58.499), (7.505, 56.0), (7.51, 55.5), (7.9, 56.0), (16.1, 56.0), (16.49, 57.0), (16.499, 55.0), (7.6, 53.6), (16.4, 58.4)] {
            pts.push([lon.to_radians(), lat.to_radians(), 10.0, 2000.0]);
            cl.push('v');
        }
        for q in nan_variants(&mut g.rng, pts[0]) {
            pts.push(q);
            cl.push('e');
        }
        case(g, "plain", def, "F", worked, kept, &pts, &cl, "gridshift-fwd", false);
        case(g, "plain", def, "I", worked, kept, &pts, &cl, "gridshift-inv", false);
        let grids = super::shipped_grids_of(def);
        for dir in ["F", "I"] {
            g.push(super::opg_line(&grids, def, "apply", dir, &data_of(&pts)), "model-gridshift", true);
        }
    }
    // cells that are not square: the margin is half a cell of the axis in question.  The shipped grid with such
    // cells (49-75 N, 0-50 E, 5' by 10') through `Plain`; a synthetic one (2 by 4 degrees cells) through the model too
    {
        let cart = |lat: f64, lon: f64| -> [f64; 4] {
            let (a, f) = (6378137.0, 1.0 / 298.257222101);
            let es = f * (2.0 - f);
            let (phi, lam) = (lat.to_radians(), lon.to_radians());
            let n = a / (1.0 - es * phi.sin() * phi.sin()).sqrt();
            [n * phi.cos() * lam.cos(), n * phi.cos() * lam.sin(), n * (1.0 - es) * phi.sin(), 2000.0]
        };
        let mut pts = vec![];
        let mut cl = String::new();
        for (lat, lon, c) in [(60.0, 20.0, 'i'), (74.9, 25.0, 'i'), (49.1, 1.0, 'i'), (75.03, 25.0, 'v'), (75.06, 25.0, 'o'), (75.08, 25.0, 'o'), (48.94, 25.0, 'o'), (48.92, 10.0, 'o'), (48.97, 10.0, 'v'), (60.0, 50.07, 'v'), (60.0, 50.09, 'o'), (76.0, 25.0, 'o'), (40.0, 10.0, 'o')] {
            pts.push(cart(lat, lon));
            cl.push(c);
        }
        for dir in ["F", "I"] {
            case(g, "plain", "deformation dt=1 grids=eur_nkg_nkgrf17vel.deformation", dir, "012", "3", &pts, &cl, "deformation-nonsquare-cells", false);
        }
        // the deflection operator (one way; latitude, longitude in degrees): it needs the geoid one metre north and
        // east of the point as well, so at the outer edge of the margin (58.5 N, 16.5 E for test.geoid) it cannot serve
        for def in ["deflection grids=test.geoid", "deflection grids=@missing.geoid,test.geoid"] {
            let mut pts: Vec<[f64; 4]> = vec![];
            let mut cl = String::new();
            for (lat, lon, c) in [
                (55.0, 12.0, 'i'), (57.3, 9.1, 'i'), (54.0, 8.0, 'i'), (58.0, 16.0, 'i'), (58.3, 12.0, 'i'), (56.0, 16.4, 'i'),
                (58.5 - 4e-6, 12.0, 'o'), (56.0, 16.5 - 4e-6, 'o'), (58.5 - 2e-6, 16.5 - 2e-6, 'o'), (59.0, 12.0, 'o'), (56.0, 17.0, 'o'), (41.0, 2.0, 'o'),
                (58.49, 12.0, 'i'), (53.51, 12.0, 'i'), (56.0, 7.51, 'i'),
            ] {
                pts.push([lat, lon, 10.0, 2000.0]);
                cl.push(c);
            }
            for q in nan_variants(&mut g.rng, pts[0]) {
                pts.push(q);
                cl.push('e');
            }
            case(g, "plain", def, "F", "01", "23", &pts, &cl, "deflection-edges", false);
            g.push(super::opg_line(&super::shipped_grids_of(def), def, "apply", "F", &data_of(&pts)), "model-deflection-edges", true);
        }
        // the deformation operator inside and outside its grids (test.deformation: 54-58 N, 8-16 E), with and without
        // the null grid: outside, a tuple is NaN and not counted, or passes unchanged and is counted
        for def in ["deformation dt=1000 grids=test.deformation", "deformation dt=1000 grids=test.deformation,@null", "deformation t_epoch=1000 grids=@missing.deformation,test.deformation,@null"] {
            let null = def.contains("@null");
            let mut pts = vec![];
            let mut cl = String::new();
            for (lat, lon) in [(55.0, 12.0), (56.5, 9.25), (57.9, 15.9)] {
                pts.push(cart(lat, lon));
                cl.push('i');
            }
            for (lat, lon) in [(41.0, 2.0), (56.0, 30.0), (-33.0, 151.0), (70.0, 12.0)] {
                pts.push(cart(lat, lon));
                cl.push(if null { 'u' } else { 'o' });
            }
            for q in nan_variants(&mut g.rng, pts[0]) {
                pts.push(q);
                cl.push('e');
            }
            for dir in ["F", "I"] {
                case(g, "plain", def, dir, "012", "3", &pts, &cl, "deformation-null-grid", false);
                g.push(super::opg_line(&super::shipped_grids_of(def), def, "apply", dir, &data_of(&pts)), "model-deformation-null-grid", true);
            }
        }
        let mut text = String::from("50 58 10 22 2 4\n");
        for row in 0..5 {
            for col in 0..4 {
                text += &format!(" {} {}", row as f64 * 1.5 - col as f64, col as f64 * 2.5 + row as f64);
            }
            text += "\n";
        }
        let grid = vec![("ns.datum".to_string(), "gravsoftb".to_string(), super::grid::hex(text.as_bytes()))];
        let mut q = vec![];
        for (lat, lon) in [(54.0, 16.0), (58.5, 16.0), (58.9, 16.0), (59.1, 16.0), (59.5, 16.0), (60.5, 16.0), (49.1, 12.0), (48.5, 12.0), (47.5, 12.0), (54.0, 8.5), (54.0, 7.5), (54.0, 23.5), (54.0, 24.5), (49.0, 8.0), (59.0, 24.0)] {
            q.push([(lon as f64).to_radians(), (lat as f64).to_radians(), 10.0, 2000.0]);
        }
        for def in ["gridshift grids=ns.datum", "gridshift grids=ns.datum,@null"] {
            for dir in ["F", "I"] {
                g.push(super::opg_line(&grid, def, "apply", dir, &data_of(&q)), "model-nonsquare-cells", true);
            }
        }
    }
    // stack underflow, empty and partial (fewer elements than the step needs): every tuple NaN, none counted
    for (def, dir) in [
        ("noop | stack pop=1", "F"), ("stack push=1 | stack pop=1,2", "F"), ("stack push=1,2 | stack pop=1,2,3", "F"), ("stack push=1 | stack flip=1,2", "F"),
        ("stack push=1,2 | stack roll=3,1", "F"), ("stack push=1 | stack unroll=2,1", "F"), ("stack push=2,1 | stack pop=1", "I"), ("stack push=1,2,3 | addone | stack pop=1,2", "I"),
        ("addone | stack push=1 | stack pop=1,2 | addone", "F"), ("push v_1 | pop v_1 v_2", "F"),
    ] {
        let pts: Vec<[f64; 4]> = vec![[1.0, 2.0, 3.0, 4.0], [10.0, 20.0, 30.0, 40.0], [-1.5, 0.0, 1e6, 2000.0]];
        case(g, "default", def, dir, "0123", "", &pts, "ooo", "stack-underflow", true);
    }
    // pipelines with failing steps: the minimum over the steps
    for (a, b) in [("utm zone=32", "utm zone=32 inv"), ("cart", "cart inv"), ("utm zone=32", "noop"), ("gridshift grids=test.datum", "utm zone=32"), ("laea lat_0=52 lon_0=10 inv", "noop"), ("geodesic inv", "noop")] {
        let pts: Vec<[f64; 4]> = vec![
            [0.2, 0.97, 0.0, 0.0], [0.21, 0.98, 5.0, 2000.0], [3.0, 0.2, 0.0, 0.0], [f64::NAN, 0.9, 0.0, 0.0], [0.2, 1.0, 0.0, 0.0], [-2.9, -0.5, 10.0, 1.0], [1e7, 5e6, 0.0, 0.0], [4e7, 0.0, 0.0, 0.0],
        ];
        g.push(format!("S_C10P\t{}\t{}\t{}", escape(a), escape(b), data_of(&pts)), "oracle-pipeline-minimum", true);
    }
    // operators working on one element only: auxiliary latitudes (second element, radians) in either direction -
    // both names of the reduced latitude given at once included -, curvatures and gravity (first element, degrees):
    // every tuple counted once, the other three elements bit for bit, tuples of one height at different latitudes
    {
        let lat: Vec<[f64; 4]> = (0..6).map(|i| [g.rng.uniform(-3.0, 3.0), g.rng.uniform(-1.5, 1.5), [0.0, 250.0, 250.0, -30.0][i % 4], 2000.0 + i as f64]).collect();
        for kind in ["geocentric", "reduced", "parametric", "reduced parametric", "conformal", "rectifying", "authalic"] {
            for dir in ["F", "I"] {
                case(g, "default", &format!("latitude {kind} ellps=intl"), dir, "1", "023", &lat, "iiiiii", "latitude-one-element", true);
            }
        }
        let h = g.rng.uniform(100.0, 3000.0);
        let deg: Vec<[f64; 4]> = (0..6).map(|i| [g.rng.uniform(-89.0, 89.0), if i % 3 == 0 { g.rng.uniform(0.0, 3000.0) } else { h }, g.rng.uniform(-50.0, 50.0), 2000.0]).collect();
        for kind in ["prime", "meridian", "gaussian", "mean", "azimuthal"] {
            // (the azimuthal curvature reads the azimuth from the second element and hands it back in radians: it works on both)
            let (w, k) = if kind == "azimuthal" { ("01", "23") } else { ("0", "123") };
            case(g, "default", &format!("curvature {kind}"), "F", w, k, &deg, "iiiiii", "curvature-one-element", true);
        }
        for kind in ["", " cassinis", " jeffreys", " grs67", " grs80", " welmec"] {
            for zh in ["", " zero-height"] {
                case(g, "default", &format!("gravity{kind}{zh}"), "F", "0", "123", &deg, "iiiiii", "gravity-one-element", true);
            }
        }
    }
    // one-way operators: the inverse reports zero and leaves the data alone
    for def in ["curvature prime", "curvature mean ellps=intl", "gravity grs80", "gravity welmec", "deflection grids=test.geoid"] {
        let pts: Vec<[f64; 4]> = (0..5).map(|_| [g.rng.uniform(-80.0, 80.0), g.rng.uniform(-170.0, 170.0), g.rng.uniform(0.0, 1000.0), 2000.0]).collect();
        g.push(format!("S_C10W\t{}\t{}", escape(def), data_of(&pts)), "oracle-one-way-inverse", true);
        if !def.starts_with("deflection") {
            g.push(op_line("default", &[], &[], def, "apply", "I", &data_of(&pts)), "model-one-way-inverse", true);
        }
    }
}
