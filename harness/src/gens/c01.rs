//! C01: forward then inverse (and inverse then forward) for every invertible operator
use super::proj::{self};
use super::{c07, c11, op_line, Gen};
use crate::rng::Rng;
use crate::wire::{data_of, escape};

/// kind of operand: what the elements mean, hence how differences are measured
///   geo   : (lon, lat) radians, rest untouched      -> ground distance from angular differences
///   plane : metres
///   cart  : metres in three dimensions
///   deg   : degrees in the first two elements (geodesic, latitude, dm/dms)
/// tol: tolerance on the ground in metres
fn case(g: &mut Gen, kind: &str, def: &str, first: &str, space: &str, tol: f64, pts: &[[f64; 4]], class: &str, model: bool) {
    g.push(format!("S_C01\t{kind}\t{}\t{first}\t{space}\t{tol:e}\t{}", escape(def), data_of(pts)), &format!("oracle-{class}"), true);
    if model {
        let rt = if first == "F" { format!("{def} | {def} inv") } else { format!("{def} inv | {def}") };
        g.push(op_line("default", &[], &[], &rt, "apply", "F", &data_of(pts)), &format!("model-{class}"), true);
    }
}

fn geo_points(r: &mut Rng, n: usize) -> Vec<[f64; 4]> {
    (0..n).map(|_| [r.uniform(-3.1, 3.1), r.uniform(-1.55, 1.55), r.uniform(-10000.0, 100000.0), r.uniform(1990.0, 2030.0)]).collect()
}

pub fn generate(g: &mut Gen, thorough: bool) {
    let rounds = if thorough { 60 } else { 6 };
    // projections: every aspect and variant, the domain of each
    for name in proj::PROJECTIONS {
        for _ in 0..rounds {
            let d = proj::random(&mut g.rng, name);
            let def = d.def();
            let mut pts = proj::points(&mut g.rng, &d, 8);
            // neighbours on one meridian and on one parallel (a graticule stored line by line): consecutive tuples
            // sharing one element bit for bit are still tuples of their own
            pts[1][0] = pts[0][0];
            pts[3][0] = pts[2][0];
            pts[5][1] = pts[4][1];
            pts[7][1] = pts[6][1];
            let tol = match name {
                "btmerc" | "butm" | "omerc" => 2e-3,
                _ => 5e-6,
            };
            case(g, "default", &def, "F", "geo", tol, &pts, &format!("{name}-fwd-inv"), true);
            case(g, "default", &format!("{def} inv"), "I", "geo", tol, &pts, &format!("{name}-inv-modifier"), true);
        }
    }
    // every parameter away from its default at once (what random draws of a few rounds may miss)
    for (name, shape, centre, extent) in [
        ("tmerc", "lat_0=49 lon_0=-2 k_0=0.9996012717 x_0=400000 y_0=-100000", (-2.0, 52.0), (6.0, 8.0)),
        ("btmerc", "lat_0=49 lon_0=-2 k_0=0.9996012717 x_0=400000 y_0=-100000", (-2.0, 52.0), (2.5, 8.0)),
        ("btmerc", "lat_0=-33 lon_0=19 k_0=1.0002 x_0=-1234.5 y_0=777.25", (19.0, -30.0), (2.5, 8.0)),
        ("tmerc", "lat_0=-33 lon_0=19 k_0=1.0002 x_0=-1234.5 y_0=777.25", (19.0, -30.0), (10.0, 8.0)),
        ("merc", "lat_0=33 lon_0=-75.5 k_0=0.9999 x_0=500000 y_0=777.25", (-75.5, 20.0), (100.0, 60.0)),
        ("merc", "lat_ts=-56 lon_0=9 x_0=-1234.5 y_0=10000000", (9.0, -20.0), (100.0, 60.0)),
        ("lcc", "lat_1=49.5 lat_2=44 lat_0=46.8 lon_0=3 k_0=0.99987742 x_0=700000 y_0=6600000", (3.0, 46.0), (8.0, 6.0)),
        ("lcc", "lat_1=-33 lat_0=-30 lon_0=25 k_0=1.0002 x_0=-1234.5 y_0=777.25", (25.0, -32.0), (8.0, 6.0)),
        ("somerc", "lat_0=46.95240555555556 lon_0=7.439583333333333 k_0=0.9999 x_0=2600000 y_0=1200000", (7.44, 46.95), (3.0, 2.0)),
        ("omerc", "latc=4 lonc=115 alpha=53.31582047 gamma_c=53.13010236 k_0=0.99984 x_0=590476.87 y_0=442857.65", (115.0, 4.0), (4.0, 4.0)),
        ("omerc", "latc=-36 lonc=-70 alpha=-40 gamma_c=20 k_0=1.0002 x_0=-1234.5 y_0=777.25 variant", (-70.0, -36.0), (4.0, 4.0)),
        ("laea", "lat_0=-30 lon_0=135 x_0=-1234.5 y_0=777.25", (135.0, -30.0), (40.0, 25.0)),
    ] {
        for ellps in ["GRS80", "bessel", "intl"] {
            let def = format!("{name} {shape} ellps={ellps}");
            let d = proj::ProjDef { name, shape: String::new(), ellps: ellps.into(), lon_0: centre.0, lat_0: None, k_0: 1.0, x_0: 0.0, y_0: 0.0, has_lon0: true, has_k0: true, has_xy: true, centre, extent };
            let pts = proj::points(&mut g.rng, &d, 8);
            let tol = match name {
                "btmerc" | "omerc" => 2e-3,
                _ => 5e-6,
            };
            case(g, "default", &def, "F", "geo", tol, &pts, &format!("{name}-every-parameter"), true);
            case(g, "default", &format!("{def} inv"), "I", "geo", tol, &pts, &format!("{name}-every-parameter-inv"), true);
        }
    }
    // laea: polar, equatorial and oblique aspects on both hemispheres
    for lat_0 in [90.0, -90.0, 0.0, 52.0, -30.0, 1e-9] {
        for ellps in ["GRS80", "sphere", "intl"] {
            let def = format!("laea lat_0={lat_0} lon_0=10 x_0=4321000 y_0=3210000 ellps={ellps}");
            let d = proj::ProjDef { name: "laea", shape: String::new(), ellps: ellps.into(), lon_0: 10.0, lat_0: Some(lat_0), k_0: 1.0, x_0: 0.0, y_0: 0.0, has_lon0: true, has_k0: false, has_xy: true, centre: (10.0, (lat_0 as f64).clamp(-60.0, 60.0)), extent: (60.0, 28.0) };
            let mut pts = proj::points(&mut g.rng, &d, 8);
            // the projection centre itself and its immediate surroundings (for the polar aspects: the pole)
            let near = |off: f64| -> [f64; 4] {
                let lat: f64 = (lat_0 as f64).to_radians();
                let lat = if lat > 0.0 { lat - off } else { lat + off };
                [10f64.to_radians() + off, lat, 0.0, 0.0]
            };
            pts.push(near(0.0));
            pts.push(near(1e-3));
            // far from the centre, beyond 90 degrees of longitude from lon_0 (the quadrant of the inverse), still
            // within 150 degrees of arc
            for (dlon, lat) in [(100.0, 20.0), (-100.0, 20.0), (135.0, 0.0), (-120.0, 10.0), (95.0, 40.0), (-91.0, -5.0), (179.0, 50.0)] {
                let lat: f64 = if lat_0 < 0.0 { -lat } else { lat };
                let (c, p) = ((lat_0 as f64).to_radians(), lat.to_radians());
                let cosd = c.sin() * p.sin() + c.cos() * p.cos() * (dlon as f64).to_radians().cos();
                if cosd.acos().to_degrees() < 145.0 {
                    pts.push([(10.0 + dlon as f64).to_radians(), p, 0.0, 0.0]);
                }
            }
            case(g, "default", &def, "F", "geo", 5e-6, &pts, "laea-aspects", true);
            // millimetres to tens of metres from the centre (a case of its own: for the polar aspects see
            // the known finding laea-polar-aspects-next-to-the-pole)
            let close: Vec<[f64; 4]> = [1e-9, 1e-7, 1e-6, 1e-5].iter().map(|o| near(*o)).collect();
            let tagged = format!("laea lat_0={lat_0} lon_0=10 x_0=1 y_0=2 ellps={ellps}");
            case(g, "default", &tagged, "F", "geo", 5e-6, &close, "laea-next-to-the-centre", true);
        }
    }
    // omerc: variants A and B, Laborde, azimuth 90
    for shape in ["latc=4 alpha=53.31 gamma_c=53.13", "latc=4 alpha=53.31 gamma_c=53.13 variant", "latc=-18.9 alpha=18.9", "latc=4 alpha=90 gamma_c=90 variant", "latc=36 alpha=-45 gamma_c=-45", "latc=45 alpha=90"] {
        let def = format!("omerc {shape} lonc=115 k_0=0.99984 x_0=590476.87 y_0=442857.65 ellps=evrstSS");
        let latc: f64 = shape.split("latc=").nth(1).unwrap().split(' ').next().unwrap().parse().unwrap();
        let d = proj::ProjDef { name: "omerc", shape: String::new(), ellps: "evrstSS".into(), lon_0: 115.0, lat_0: None, k_0: 1.0, x_0: 0.0, y_0: 0.0, has_lon0: true, has_k0: true, has_xy: true, centre: (115.0, latc), extent: (6.0, 6.0) };
        let pts = proj::points(&mut g.rng, &d, 10);
        case(g, "default", &def, "F", "geo", 2e-3, &pts, "omerc-variants", true);
        // (more than a quarter turn of longitude from the centre: the other half of the aposphere, where the
        // quadrant of the along-line coordinate matters)
        if !shape.contains("alpha=90") {
            let far: Vec<[f64; 4]> = (0..6)
                .map(|i| [(if i % 2 == 0 { g.rng.uniform(215.0, 250.0) } else { g.rng.uniform(0.0, 20.0) }).to_radians(), g.rng.uniform(-35.0, 35.0).to_radians(), 0.0, 2000.0])
                .collect();
            case(g, "default", &def, "F", "geo", 2e-3, &far, "omerc-beyond-a-quarter-turn", true);
        }
    }
    // every auxiliary latitude on the extreme shapes: spheres (every series coefficient vanishes) and the most
    // flattened built-in ellipsoid; the equator and the last degrees before the poles among the latitudes
    for ellps in ["sphere", "unitsphere", "mprts", "6378137,150"] {
        for kind in ["geocentric", "reduced", "conformal", "rectifying", "authalic", "parametric"] {
            let lat: Vec<[f64; 4]> = [0.0, 0.3, -0.9, 1.2, -1.5, 1.55, 1e-9, -1.0e-5].iter().map(|l| [0.5, *l, 10.0, 2000.0]).collect();
            case(g, "default", &format!("latitude {kind} ellps={ellps}"), "F", "geo", 5e-6, &lat, "latitude-extreme-shapes", true);
            case(g, "default", &format!("latitude {kind} ellps={ellps}"), "I", "geo", 5e-6, &lat, "latitude-extreme-shapes-inv-first", true);
        }
    }
    // the three dimensional conversions, datum shifts and their relatives
    for _ in 0..rounds {
        let ellps = *g.rng.pick(&proj::ELLPS);
        let geo = geo_points(&mut g.rng, 8);
        case(g, "default", &format!("cart ellps={ellps}"), "F", "geo3", 1e-6, &geo, "cart", true);
        // millimetres to metres from the rotation axis, on either hemisphere (the inverse has a polar shortcut)
        let axis: Vec<[f64; 4]> = [1e-6, 3e-8, 1e-9, 5e-10, 2e-10, 1e-10, 1e-11, 1e-13]
            .iter()
            .map(|o| {
                let s = if g.rng.chance(1, 2) { 1.0 } else { -1.0 };
                [g.rng.uniform(-3.1, 3.1), s * (std::f64::consts::FRAC_PI_2 - o), g.rng.uniform(-1000.0, 9000.0), 2000.0]
            })
            .collect();
        case(g, "default", &format!("cart ellps={ellps}"), "F", "geo3", 1e-6, &axis, "cart-next-to-the-axis", true);
        let axis_xyz: Vec<[f64; 4]> = [3.0, 4e-1, 6e-3, 3e-3, 1e-3, 2e-4, 1e-5, 1e-7]
            .iter()
            .map(|d: &f64| {
                let s = if g.rng.chance(1, 2) { 1.0 } else { -1.0 };
                let az = g.rng.uniform(-3.1, 3.1);
                [d * az.cos(), d * az.sin(), s * g.rng.uniform(6.35e6, 6.37e6), 2000.0]
            })
            .collect();
        case(g, "default", &format!("cart ellps={ellps}"), "I", "cart", 1e-6, &axis_xyz, "cart-next-to-the-axis-inv-first", true);
        let high: Vec<[f64; 4]> = geo.iter().map(|p| [p[0], p[1], g.rng.uniform(1e5, 1e7), p[3]]).collect();
        case(g, "default", &format!("cart ellps={ellps}"), "F", "geo3", 1e-3, &high, "cart-high", true);
        let h = c07::random_set(&mut g.rng);
        let cart = c07::random_points(&mut g.rng, 6, true);
        // without `exact` the rotation matrix is the small angle approximation, whose transpose
        // undoes it to second order only: theta^2 * |r| (documented; see C07)
        let theta = ((0..3).map(|i| h.r[i].abs() + h.dr[i].abs() * 45.0).fold(0.0, f64::max) / 3600.0).to_radians();
        let htol = if h.exact { 5e-6 } else { 5e-6 + 4.0 * theta * theta * 7e6 };
        for def in [h.scalar_def(false), h.list_def(false), h.scalar_def(true)] {
            case(g, "default", &def, "F", "cart", htol, &cart, "helmert", true);
            case(g, "default", &def, "I", "cart", htol, &cart, "helmert-inv-first", true);
        }
        let m = format!("molodensky dx=84.87 dy=96.49 dz=116.95 ellps_0=WGS84 ellps_1=intl{}", if g.rng.chance(1, 2) { " abridged" } else { "" });
        let low: Vec<[f64; 4]> = geo.iter().map(|p| [p[0], p[1].clamp(-1.4, 1.4), p[2].clamp(-100.0, 5000.0), p[3]]).collect();
        // millimetre level is what the property states (the known finding on record says where it is missed)
        case(g, "default", &m, "F", "geo3", 5e-3, &low, "molodensky", true);
        // a small shift between equal ellipsoids: second order effects vanish
        let m2 = format!("molodensky dx=1.5 dy=-2.5 dz=0.75 ellps_0=GRS80 ellps_1=GRS80{}", if g.rng.chance(1, 2) { " abridged" } else { "" });
        case(g, "default", &m2, "F", "geo3", 1e-3, &low, "molodensky-small", true);
        let pt = format!("permtide from={} to={} ellps={ellps}", g.rng.pick(&["mean", "zero", "free"]), g.rng.pick(&["mean", "zero", "free"]));
        if !pt.contains("from=mean to=mean") && !pt.contains("from=zero to=zero") && !pt.contains("from=free to=free") {
            case(g, "default", &pt, "F", "geo3", 5e-6, &geo, "permtide", true);
        }
        for kind in ["geocentric", "reduced", "conformal", "rectifying", "authalic", "parametric"] {
            let lat: Vec<[f64; 4]> = geo.iter().map(|p| [p[0], p[1] * 0.98, p[2], p[3]]).collect();
            case(g, "default", &format!("latitude {kind} ellps={ellps}"), "F", "geo", 5e-6, &lat, "latitude", true);
            case(g, "default", &format!("latitude {kind} ellps={ellps}"), "I", "geo", 5e-6, &lat, "latitude-inv-first", true);
        }
        let gd: Vec<[f64; 4]> = (0..6).map(|_| [g.rng.uniform(-80.0, 80.0), g.rng.uniform(-170.0, 170.0), g.rng.uniform(-180.0, 180.0), g.rng.uniform(10.0, 1.5e7)]).collect();
        case(g, "default", &format!("geodesic reversible ellps={ellps}"), "F", "geodesic", 1e-4, &gd, "geodesic-reversible", true);
    }
    // exact ones: permutations, sign changes, unit changes, translations
    let words = c11::valid_descriptors();
    for _ in 0..(rounds * 4) {
        let from = g.rng.pick(&words).clone();
        let to = g.rng.pick(&words).clone();
        let pts: Vec<[f64; 4]> = (0..5).map(|_| [g.rng.uniform(-3.0, 3.0), g.rng.uniform(-1.5, 1.5), g.rng.uniform(-100.0, 100.0), g.rng.uniform(0.0, 3000.0)]).collect();
        for def in [format!("adapt from={from} to={to}"), format!("adapt from={from}"), format!("adapt to={to}")] {
            case(g, "default", &def, "F", "exact", 0.0, &pts, "adapt", true);
            case(g, "default", &def, "I", "exact", 0.0, &pts, "adapt-inv-first", true);
        }
    }
    for def in ["addone", "axisswap order=2,1", "axisswap order=2,-1,3", "axisswap order=4,3,-2,1", "axisswap order=-1,-2,-3,-4", "axisswap order=2,3,1", "axisswap order=3,1,2", "axisswap order=2,3,4,1", "axisswap order=-3,1,-2", "axisswap order=4,-1,2,-3", "unitconvert xy_in=us-ft xy_out=km", "unitconvert xy_in=deg xy_out=rad z_in=ft z_out=m", "unitconvert xy_in=m xy_out=ch z_in=yd z_out=in", "noop", "longlat", "latlon", "dm", "dms"] {
        let pts: Vec<[f64; 4]> = if def == "dm" || def == "dms" {
            // latitude, longitude as (D)DDMM.mmm resp. (D)DDMMSS.sss
            (0..8)
                .map(|_| {
                    let enc = |r: &mut Rng, dmax: i64| -> f64 {
                        let sign = if r.chance(1, 2) { -1.0 } else { 1.0 };
                        let d = r.range(0, dmax) as f64;
                        let m = r.range(0, 59) as f64;
                        if def == "dm" {
                            sign * (d * 100.0 + m + (r.range(0, 999) as f64) / 1000.0)
                        } else {
                            sign * (d * 10000.0 + m * 100.0 + r.range(0, 59) as f64 + (r.range(0, 999) as f64) / 1000.0)
                        }
                    };
                    [enc(&mut g.rng, 89), enc(&mut g.rng, 179), 0.0, 0.0]
                })
                // angles with zero degrees, of either sign: the sign lives in the minutes or seconds only
                .chain(if def == "dm" {
                    vec![[-30.5, -0.75, 0.0, 0.0], [30.5, 0.75, 0.0, 0.0], [-59.999, 59.999, 0.0, 0.0], [-0.001, -100.0, 0.0, 0.0]]
                } else {
                    vec![[-3030.25, -45.5, 0.0, 0.0], [3030.25, 45.5, 0.0, 0.0], [-5959.999, 0.001, 0.0, 0.0], [-100.0, -10000.0, 0.0, 0.0]]
                })
                .collect()
        } else {
            (0..8).map(|_| [g.rng.uniform(-300.0, 300.0), g.rng.uniform(-300.0, 300.0), g.rng.uniform(-300.0, 300.0), g.rng.uniform(-300.0, 300.0)]).collect()
        };
        let space = if def == "dm" || def == "dms" { "plane" } else { "exact" };
        case(g, "default", def, "F", space, 1e-8, &pts, "exact-operators", true);
        if !def.starts_with('d') {
            case(g, "default", def, "I", space, 1e-8, &pts, "exact-operators-inv-first", true);
        }
    }
    // grid based shifts inside the coverage (Plain context, shipped grids; not in the model)
    for def in ["gridshift grids=test.datum", "gridshift grids=test.geoid", "gridshift grids=5458.gsb", "gridshift grids=100800401.gsb", "deformation dt=10 grids=test.deformation", "deformation t_epoch=2000 grids=test.deformation"] {
        let spain = def.contains("100800401");
        let pts: Vec<[f64; 4]> = (0..8)
            .map(|_| {
                let (lon, lat) = if spain { (g.rng.uniform(0.5, 2.5), g.rng.uniform(40.5, 42.5)) } else { (g.rng.uniform(9.0, 15.0), g.rng.uniform(55.0, 57.0)) };
                [lon.to_radians(), lat.to_radians(), g.rng.uniform(0.0, 100.0), g.rng.uniform(2005.0, 2025.0)]
            })
            .collect();
        if !spain {
            let grids = super::shipped_grids_of(def);
            let input: Vec<[f64; 4]> = if def.starts_with("deformation") {
                pts.iter().map(|p| { let (s, c) = p[1].sin_cos(); let (sl, cl) = p[0].sin_cos(); [6.4e6 * c * cl, 6.4e6 * c * sl, 6.38e6 * s, p[3]] }).collect()
            } else {
                pts.clone()
            };
            g.push(super::opg_line(&grids, &format!("{def} | {def} inv"), "apply", "F", &data_of(&input)), "model-grid-roundtrip", true);
            g.push(super::opg_line(&grids, def, "apply", "I", &data_of(&input)), "model-grid-inverse", true);
        }
        if def.starts_with("deformation") {
            g.push(format!("S_C01D\t{}\t{}", escape(def), data_of(&pts)), "oracle-deformation", true);
        } else {
            case(g, "plain", def, "F", "geo3", 5e-6, &pts, "gridshift", false);
        }
    }
    // several grids: points next to the border of the grid that has priority (55.5-57.5 N, 11-13 E), so that the
    // shift (about 1.7 km) carries them across it: the inverse must use the grid list as the forward does
    {
        let def = "gridshift grids=test_subset.datum,test.datum";
        let mut pts: Vec<[f64; 4]> = vec![];
        for off in [1e-6f64, 2e-5, 1e-4, 2.5e-4, 4e-4] {
            for s in [-1.0, 1.0] {
                let o = s * off;
                pts.push([12f64.to_radians(), 57.5f64.to_radians() + o, 0.0, 2000.0]);
                pts.push([12f64.to_radians(), 55.5f64.to_radians() + o, 0.0, 2000.0]);
                pts.push([11f64.to_radians() + o, 56.5f64.to_radians(), 0.0, 2000.0]);
                pts.push([13f64.to_radians() + o, 56.5f64.to_radians(), 0.0, 2000.0]);
                pts.push([13f64.to_radians() + o, 57.5f64.to_radians() + o, 0.0, 2000.0]);
            }
        }
        for chunk in pts.chunks(10) {
            case(g, "plain", def, "F", "geo3", 5e-6, chunk, "gridshift-several-grids", false);
            case(g, "plain", def, "I", "geo3", 5e-6, chunk, "gridshift-several-grids-inv-first", false);
            let grids = super::shipped_grids_of(def);
            g.push(super::opg_line(&grids, &format!("{def} | {def} inv"), "apply", "F", &data_of(chunk)), "model-grid-roundtrip", true);
            g.push(super::opg_line(&grids, def, "apply", "I", &data_of(chunk)), "model-grid-inverse", true);
        }
    }
    // whole pipelines and macros of invertible steps
    for _ in 0..(rounds * 2) {
        let zone = 28 + g.rng.below(8);
        let defs = [
            format!("cart ellps=intl | helmert x=-87 y=-96 z=-120 | cart inv ellps=GRS80 | utm zone={zone}"),
            format!("adapt from=neuf_deg | cart | helmert x=10 y=20 z=-5 rx=0.01 s=0.5 convention=position_vector | cart inv | adapt to=neuf_deg"),
            format!("utm zone={zone} | axisswap order=2,1 | unitconvert xy_in=m xy_out=km"),
            format!("tmerc lon_0={} k_0=0.9996 | addone | addone inv | merc inv | merc", 6 * zone as i64 - 183),
            format!("inv utm zone={zone} | utm zone={zone}"),
        ];
        let lon0 = (6.0 * zone as f64 - 183.0).to_radians();
        for (i, def) in defs.iter().enumerate() {
            let pts: Vec<[f64; 4]> = (0..6)
                .map(|_| {
                    let (lon, lat) = (lon0 + g.rng.uniform(-0.05, 0.05), g.rng.uniform(0.2, 1.2));
                    if i == 1 { [lat.to_degrees(), lon.to_degrees(), 100.0, 2000.0] } else if i == 4 { [500000.0 + g.rng.uniform(-2e5, 2e5), g.rng.uniform(1e6, 8e6), 0.0, 0.0] } else { [lon, lat, 100.0, 2000.0] }
                })
                .collect();
            let space = if i == 1 { "deg" } else if i == 4 { "plane" } else { "geo3" };
            case(g, "default", def, "F", space, 2e-5, &pts, "pipelines", true);
        }
    }
    // central meridians next to the antimeridian, the longitudes written in ]-180, 180] on either side of it
    for (def, lon_0) in [("utm zone=1", -177.0), ("utm zone=60", 177.0), ("tmerc lon_0=180 k_0=0.9996 x_0=500000", 180.0), ("tmerc lon_0=-179.5", -179.5), ("utm zone=60 south ellps=intl", 177.0)] {
        let pts: Vec<[f64; 4]> = [-4.0, -2.5, -0.5, 0.0, 1.0, 2.5, 4.0, 5.5]
            .iter()
            .map(|d| {
                let mut lon: f64 = lon_0 + d;
                if lon > 180.0 {
                    lon -= 360.0;
                }
                if lon <= -180.0 {
                    lon += 360.0;
                }
                [lon.to_radians(), g.rng.uniform(-1.3, 1.3), 0.0, 2000.0]
            })
            .collect();
        case(g, "default", def, "F", "geo", 5e-6, &pts, "tmerc-across-the-antimeridian", true);
    }
    // macros whose body starts with a stack step, as steps of pipelines run forward and backward
    super::lang::stack_led_macros(g, thorough);
    // inverse first, from points of the plane: the same points come back, also where the longitudes in between lie
    // beyond the antimeridian as counted from the central meridian
    for (def, ex, ey) in [
        ("merc lon_0=150", 1.9e7, 8.0e6), ("merc lon_0=-160 k_0=0.9996 x_0=1000 y_0=-2000", 1.9e7, 8.0e6), ("merc lat_ts=56 lon_0=100 ellps=intl", 1.0e7, 5.0e6), ("webmerc", 1.9e7, 1.0e7),
        ("lcc lat_1=33 lat_2=45 lon_0=150", 4.0e6, 3.0e6), ("lcc lat_1=-40 lon_0=-170", 4.0e6, 3.0e6), ("laea lat_0=52 lon_0=170", 3.0e6, 3.0e6), ("laea lat_0=90 lon_0=-150", 3.0e6, 3.0e6),
        ("tmerc lon_0=177 k_0=0.9996 x_0=500000", 3.0e5, 6.0e6), ("utm zone=60", 3.0e5, 6.0e6), ("somerc lat_0=46.95 lon_0=7.44", 2.0e5, 2.0e5), ("omerc latc=4 lonc=115 alpha=53.3 gamma_c=53.1", 4.0e5, 4.0e5),
    ] {
        let x_0 = if def.contains("x_0=500000") || def.starts_with("utm") { 500000.0 } else if def.contains("x_0=1000") { 1000.0 } else { 0.0 };
        let pts: Vec<[f64; 4]> = (0..8).map(|i| [x_0 + ex * (i as f64 - 3.5) / 3.6, g.rng.uniform(-ey, ey), 10.0, 2000.0]).collect();
        case(g, "default", def, "I", "cart", 1e-5, &pts, "projections-inv-first", true);
    }
    // the pole a cone points to, after other points of the same set (nothing of a point stays behind for the next)
    for (def, pole) in [("lcc lat_1=33 lat_2=45 lon_0=10", 1.0), ("lcc lat_1=57 lat_0=57 lon_0=12 k_0=0.9996", 1.0), ("lcc lat_1=-33 lat_2=-45 lon_0=20 ellps=intl", -1.0), ("laea lat_0=90 lon_0=10", 1.0), ("laea lat_0=-90", -1.0)] {
        let hp = std::f64::consts::FRAC_PI_2 * pole;
        let pts = vec![[0.3, 0.8 * pole, 0.0, 2000.0], [0.1, hp, 5.0, 2000.0], [0.2, 0.95 * pole, 0.0, 2000.0], [-2.0, hp, 0.0, 2000.0], [0.25, 0.6 * pole, 0.0, 2000.0], [0.25, hp, 0.0, 2000.0]];
        case(g, "default", def, "F", "geo", 5e-6, &pts, "pole-after-other-points", true);
    }
    // the `inv` modifier exchanges the directions of every operator (one definition per operator, every parameter given)
    for def in super::c09::EVERY_PARAMETER {
        if def.contains("grids") {
            continue;
        }
        for pts in [vec![[0.2, 0.9, 10.0, 2020.0], [-0.1, -0.4, 0.0, 2000.0]], vec![[500000.0, 6.1e6, 10.0, 2020.0], [3.0e5, -2.0e6, 50.0, 2010.0]], vec![[55.0, 12.0, 100.0, 2020.0], [-33.0, 151.0, 0.0, 2000.0]]] {
            g.push(format!("S_INVMOD\t{}\t{}", crate::wire::escape(def), crate::wire::data_of(&pts)), "oracle-inv-modifier", true);
        }
    }
    // pipelines that rearrange their data through the stack: run backwards they put everything back (balanced
    // programs of push, pop, roll, unroll, swap, flip around value changing steps), also through a macro and with `inv`
    for def in [
        "stack push=1,2,3 | stack roll=3,1 | stack pop=3,2,1",
        "stack push=1,2,3,4 | stack unroll=4,1 | stack pop=1,2,3,4",
        "stack push=1,2,3 | addone | stack roll=3,2 | stack swap | stack pop=3,2,1",
        "stack push=3,4 | helmert x=10 y=20 | stack flip=1,2 | stack pop=4,3",
        "stack push=1,2,3,4 | stack roll=4,-1 | stack roll=3,2 | stack pop=4,3,2,1 | helmert z=5",
        "push v_1 v_2 v_3 | addone | stack roll=3,1 | pop v_3 v_2 v_1",
        "inv stack push=4,3,2 | inv stack roll=3,1 | inv stack pop=2,3,4",
    ] {
        let pts: Vec<[f64; 4]> = (0..4).map(|_| [g.rng.uniform(-9.0, 9.0), g.rng.uniform(10.0, 90.0), g.rng.uniform(100.0, 900.0), g.rng.uniform(1000.0, 9000.0)]).collect();
        case(g, "default", def, "F", "exact", 0.0, &pts, "pipelines-through-the-stack", true);
        case(g, "default", def, "I", "exact", 0.0, &pts, "pipelines-through-the-stack-inv-first", true);
    }
}
