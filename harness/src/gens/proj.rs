//! Parameterisations of the plane projections and points of their domains (C13, C01, C05, C10, C14)
use crate::rng::Rng;

pub const ELLPS: [&str; 12] = ["GRS80", "intl", "bessel", "WGS84", "clrk66", "airy", "krass", "evrstSS", "sphere", "6378137,298.25", "6377000,250", "mprts"];

#[derive(Clone, Debug)]
pub struct ProjDef {
    pub name: &'static str,
    /// shape parameters that are not among the shared ones (lat_1, lat_2, latc, alpha, zone, ...)
    pub shape: String,
    pub ellps: String,
    pub lon_0: f64,
    pub lat_0: Option<f64>,
    pub k_0: f64,
    pub x_0: f64,
    pub y_0: f64,
    /// which of the shared parameters the operator accepts
    pub has_lon0: bool,
    pub has_k0: bool,
    pub has_xy: bool,
    /// centre of the useful domain and its half extents, degrees
    pub centre: (f64, f64),
    pub extent: (f64, f64),
}

impl ProjDef {
    pub fn def_with(&self, ellps: &str, lon_0: f64, k_0: f64, x_0: f64, y_0: f64) -> String {
        let mut w = vec![self.name.to_string()];
        if !self.shape.is_empty() {
            w.push(self.shape.clone());
        }
        if let Some(l) = self.lat_0 {
            w.push(format!("lat_0={l}"));
        }
        if self.has_lon0 {
            w.push(format!("{}={lon_0}", if self.name == "omerc" { "lonc" } else { "lon_0" }));
        }
        if self.has_k0 {
            w.push(format!("k_0={k_0}"));
        }
        if self.has_xy {
            w.push(format!("x_0={x_0}"));
            w.push(format!("y_0={y_0}"));
        }
        w.push(format!("ellps={ellps}"));
        w.join(" ")
    }
    pub fn def(&self) -> String {
        self.def_with(&self.ellps, self.lon_0, self.k_0, self.x_0, self.y_0)
    }
    /// a point of the domain, radians
    pub fn point(&self, r: &mut Rng) -> (f64, f64) {
        let lon = self.centre.0 + r.uniform(-self.extent.0, self.extent.0);
        let lat = (self.centre.1 + r.uniform(-self.extent.1, self.extent.1)).clamp(-89.0, 89.0);
        (lon.to_radians(), lat.to_radians())
    }
}

pub const PROJECTIONS: [&str; 10] = ["merc", "webmerc", "tmerc", "utm", "btmerc", "butm", "lcc", "laea", "omerc", "somerc"];

pub fn random(r: &mut Rng, name: &'static str) -> ProjDef {
    let ellps = r.pick(&ELLPS).to_string();
    let lon_0 = *r.pick(&[0.0, 9.0, -75.5, 120.25, 15.0, -3.0, 190.0, -200.5, 180.0, 359.0]);
    let k_0 = *r.pick(&[1.0, 0.9996, 0.9999, 1.0002, 2.0, 0.5]);
    let x_0 = *r.pick(&[0.0, 500000.0, -1234.5, 2600000.0]);
    let y_0 = *r.pick(&[0.0, 10000000.0, 777.25, -1200000.0]);
    let mut d = ProjDef { name, shape: String::new(), ellps, lon_0, lat_0: None, k_0, x_0, y_0, has_lon0: true, has_k0: true, has_xy: true, centre: (lon_0, 0.0), extent: (170.0, 80.0) };
    match name {
        "merc" => {
            d.extent = (170.0, 89.0);
        }
        "webmerc" => {
            d.has_lon0 = false;
            d.has_k0 = false;
            d.has_xy = false;
            d.centre = (0.0, 0.0);
            d.extent = (170.0, 89.0);
        }
        "tmerc" => {
            d.lat_0 = *r.pick(&[None, Some(0.0), Some(49.0), Some(-33.0)]);
            d.extent = (25.0, 85.0);
        }
        "btmerc" => {
            d.lat_0 = *r.pick(&[None, Some(0.0), Some(49.0), Some(-33.0)]);
            d.extent = (2.5, 80.0);
        }
        "utm" | "butm" => {
            let zone = 1 + r.below(60);
            let south = r.chance(1, 2);
            d.shape = format!("zone={zone}{}", if south { " south" } else { "" });
            d.lon_0 = 6.0 * zone as f64 - 183.0;
            d.k_0 = 0.9996;
            d.x_0 = 500000.0;
            d.y_0 = if south { 10000000.0 } else { 0.0 };
            d.has_lon0 = false;
            d.has_k0 = false;
            d.has_xy = false;
            d.centre = (d.lon_0, 0.0);
            d.extent = if name == "utm" { (20.0, 84.0) } else { (2.5, 80.0) };
        }
        "lcc" => {
            let north = r.chance(2, 3);
            let s = if north { 1.0 } else { -1.0 };
            let p1 = s * *r.pick(&[20.0, 33.0, 45.0, 57.0, 49.5]);
            d.shape = match r.below(3) {
                0 => format!("lat_1={p1}"),
                1 => format!("lat_1={p1} lat_2={}", p1 + s * 10.0),
                _ => format!("lat_1={p1} lat_2={}", p1 - s * 8.0),
            };
            d.lat_0 = *r.pick(&[None, Some(p1), Some(p1 - s * 5.0)]);
            d.centre = (lon_0, p1);
            d.extent = (60.0, 25.0);
        }
        "laea" => {
            let lat_0 = *r.pick(&[52.0, -30.0, 10.0, 75.0, 0.0, 0.0]);
            d.lat_0 = Some(lat_0);
            d.has_k0 = false;
            d.centre = (lon_0, lat_0);
            d.extent = (50.0, 30.0);
        }
        "omerc" => {
            let latc = *r.pick(&[4.0, 36.0, -20.0, 45.3]);
            let alpha = *r.pick(&[53.3, 30.0, -40.0, 120.0, 15.0]);
            d.shape = format!("latc={latc} alpha={alpha} gamma_c={}{}", *r.pick(&[alpha, alpha - 0.2, 20.0]), if r.chance(1, 2) { " variant" } else { "" });
            d.centre = (lon_0, latc);
            d.extent = (8.0, 8.0);
        }
        _ => {
            // somerc
            let lat_0 = *r.pick(&[46.95, 47.5, -35.0, 20.0]);
            d.lat_0 = Some(lat_0);
            d.centre = (lon_0, lat_0);
            d.extent = (4.0, 3.0);
        }
    }
    d
}

/// tuples (lon, lat, h, t) of the domain
pub fn points(r: &mut Rng, d: &ProjDef, n: usize) -> Vec<[f64; 4]> {
    let mut v: Vec<[f64; 4]> = (0..n)
        .map(|_| {
            let (lon, lat) = d.point(r);
            [lon, lat, r.uniform(-100.0, 3000.0), r.uniform(1990.0, 2030.0)]
        })
        .collect();
    if (d.name == "merc" || d.name == "webmerc") && n >= 4 {
        // the cylindrical projections reach (almost) to the poles
        v[0][1] = r.uniform(85.1f64, 89.5).to_radians();
        v[1][1] = -r.uniform(85.1f64, 89.5).to_radians();
    }
    v
}
