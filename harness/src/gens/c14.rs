//! C14: two routes to the same quantity
use super::proj::{self};
use super::{c09, c11, op_line, Gen};
use crate::wire::{data_of, escape};

pub fn generate(g: &mut Gen, thorough: bool) {
    let rounds = if thorough { 80 } else { 8 };
    // the ellipsoid methods the operators are compared with, themselves tied to the model
    {
        let mut ells: Vec<String> = ["GRS80", "intl", "bessel", "sphere", "krass"].iter().map(|s| s.to_string()).collect();
        ells.push(format!("{},{}", g.rng.uniform(6.0e6, 6.5e6), g.rng.uniform(150.0, 400.0)));
        super::c06::ell_cases(g, &ells, if thorough { 20 } else { 3 });
    }
    // tmerc against btmerc within three degrees of the central meridian
    for _ in 0..rounds {
        let d = proj::random(&mut g.rng, "btmerc");
        let pts = proj::points(&mut g.rng, &d, 8);
        let a = d.def();
        let b = a.replacen("btmerc", "tmerc", 1);
        g.push(format!("S_C14\ttm\t{}\t{}\t{}", escape(&b), escape(&a), data_of(&pts)), "oracle-tmerc-btmerc", true);
        // (a hair from the central meridian: millimetres are millimetres there too)
        let near: Vec<[f64; 4]> = [1e-12, -1e-10, 5e-10, -9e-10, 2e-9, 1e-8, -1e-7].iter().map(|dl| [d.lon_0.to_radians() + dl, g.rng.uniform(-1.3, 1.3), 0.0, 0.0]).collect();
        g.push(format!("S_C14\ttm\t{}\t{}\t{}", escape(&b), escape(&a), data_of(&near)), "oracle-tmerc-btmerc-next-to-the-meridian", true);
        g.push(op_line("default", &[], &[], &b, "apply", "F", &data_of(&near)), "model-tmerc-next-to-the-meridian", true);
        g.push(op_line("default", &[], &[], &a, "apply", "F", &data_of(&pts)), "model-btmerc", true);
        g.push(op_line("default", &[], &[], &b, "apply", "F", &data_of(&pts)), "model-tmerc", true);
        let zone = 1 + g.rng.below(60);
        let u = proj::ProjDef { centre: (6.0 * zone as f64 - 183.0, 0.0), extent: (2.9, 80.0), ..d.clone() };
        let upts = proj::points(&mut g.rng, &u, 6);
        let south = if g.rng.chance(1, 2) { " south" } else { "" };
        g.push(format!("S_C14\ttm\t{}\t{}\t{}", escape(&format!("utm zone={zone}{south}")), escape(&format!("butm zone={zone}{south}")), data_of(&upts)), "oracle-utm-butm", true);
        // ... on the ellipsoid named, for either of them, and against the definitions they abbreviate
        let e = &d.ellps;
        let (u1, u2) = (format!("utm zone={zone}{south} ellps={e}"), format!("butm zone={zone}{south} ellps={e}"));
        g.push(format!("S_C14\ttm\t{}\t{}\t{}", escape(&u1), escape(&u2), data_of(&upts)), "oracle-utm-butm-ellps", true);
        let b2 = format!("btmerc lon_0={} k_0=0.9996 x_0=500000 y_0={} ellps={e}", 6 * zone as i64 - 183, if south.is_empty() { 0 } else { 10000000 });
        g.push(format!("S_C14\ttm\t{}\t{}\t{}", escape(&u1), escape(&b2), data_of(&upts)), "oracle-utm-btmerc-ellps", true);
        g.push(op_line("default", &[], &[], &u2, "apply", "F", &data_of(&upts)), "model-butm-ellps", true);
    }
    // false eastings that carry a zone number in front (Gauss-Krueger 3 degree zones, state plane feet): the strip is
    // measured from the central meridian, not from the origin of the grid
    for (zone, x_0, e) in [(3, "3500000", "bessel"), (32, "32500000", "GRS80"), (5, "5500000", "krass"), (33, "-33500000", "intl"), (9, "1e8", "GRS80")] {
        let lon_0 = if zone == 32 || zone == 33 { 6.0 * zone as f64 - 183.0 } else { 3.0 * zone as f64 };
        let d = proj::ProjDef { centre: (lon_0, 0.0), extent: (2.9, 80.0), ..proj::random(&mut g.rng, "btmerc") };
        let pts = proj::points(&mut g.rng, &d, 6);
        let tail = format!("lon_0={lon_0} k_0=0.9996 x_0={x_0} y_0=-5000000 ellps={e}");
        g.push(format!("S_C14\ttm\t{}\t{}\t{}", escape(&format!("tmerc {tail}")), escape(&format!("btmerc {tail}")), data_of(&pts)), "oracle-tmerc-btmerc-zone-prefixed-eastings", true);
        for dir in ["F", "I"] {
            g.push(op_line("default", &[], &[], &format!("tmerc {tail}"), "both", dir, &data_of(&pts)), "model-tmerc-zone-prefixed-eastings", true);
        }
    }
    // operators against the ellipsoid's own methods
    for _ in 0..rounds {
        let ellps = *g.rng.pick(&proj::ELLPS);
        let geo: Vec<[f64; 4]> = (0..8).map(|_| [g.rng.uniform(-3.1, 3.1), g.rng.uniform(-1.55, 1.55), g.rng.uniform(-10000.0, 100000.0), 2000.0]).collect();
        g.push(format!("S_C14\tcart\t{ellps}\t\t{}", data_of(&geo)), "oracle-cart-ellipsoid", true);
        // (millimetres to metres from the axis, at both poles: the two routes resolve them alike)
        let hp = std::f64::consts::FRAC_PI_2;
        let axis: Vec<[f64; 4]> = [1e-3, 3e-3, 1e-2, 0.1, 1.0, 10.0, 4e-4, 2e-3]
            .iter()
            .enumerate()
            .map(|(i, d)| [g.rng.uniform(-3.0, 3.0), (hp - d / 6.4e6) * if i % 2 == 0 { 1.0 } else { -1.0 }, [0.0, 500.0, -100.0, 9.0e4][i % 4], 2000.0])
            .collect();
        g.push(format!("S_C14\tcart\t{ellps}\t\t{}", data_of(&axis)), "oracle-cart-ellipsoid-next-to-the-axis", true);
        // (a position without an epoch - what every 2-D and 3-D container delivers - is a position all the same)
        let timeless: Vec<[f64; 4]> = geo.iter().take(4).map(|p| [p[0], p[1], p[2], f64::NAN]).collect();
        g.push(format!("S_C14\tcart\t{ellps}\t\t{}", data_of(&timeless)), "oracle-cart-ellipsoid-no-epoch", true);
        g.push(op_line("default", &[], &[], &format!("cart ellps={ellps}"), "apply", "F", &data_of(&timeless)), "model-cart-no-epoch", true);
        g.push(op_line("default", &[], &[], &format!("cart ellps={ellps}"), "apply", "F", &data_of(&geo)), "model-cart", true);
        // (the poles and the equator themselves among the latitudes: what an operator does there it does like the method)
        let hp = std::f64::consts::FRAC_PI_2;
        let special: Vec<[f64; 4]> = vec![[0.1, hp, 0.0, 2000.0], [0.1, -hp, 0.0, 2000.0], [0.1, 0.0, 0.0, 2000.0], [0.1, -0.0, 0.0, 2000.0], [0.1, f64::from_bits(hp.to_bits() - 1), 0.0, 2000.0], [0.1, 1e-300, 0.0, 2000.0]];
        for kind in ["geocentric", "reduced", "parametric", "conformal", "rectifying", "authalic"] {
            g.push(format!("S_C14\tlat\t{ellps}\t{kind}\t{}", data_of(&geo)), "oracle-latitude-ellipsoid", true);
            g.push(format!("S_C14\tlat\t{ellps}\t{kind}\t{}", data_of(&special)), "oracle-latitude-ellipsoid-poles-and-equator", true);
            for dir in ["F", "I"] {
                g.push(op_line("default", &[], &[], &format!("latitude {kind} ellps={ellps}"), "apply", dir, &data_of(&special)), "model-latitude-poles-and-equator", true);
            }
        }
        let deg: Vec<[f64; 4]> = (0..8).map(|_| [g.rng.uniform(-89.0, 89.0), g.rng.uniform(-180.0, 180.0), g.rng.uniform(0.0, 3000.0), 0.0]).collect();
        for kind in ["prime", "meridian", "gaussian", "mean", "azimuthal"] {
            g.push(format!("S_C14\tcurv\t{ellps}\t{kind}\t{}", data_of(&deg)), "oracle-curvature-ellipsoid", true);
            g.push(op_line("default", &[], &[], &format!("curvature {kind} ellps={ellps}"), "apply", "F", &data_of(&deg)), "model-curvature", true);
        }
        let level = g.rng.uniform(50.0, 4000.0);
        let levels: Vec<[f64; 4]> = (0..6).map(|i| [g.rng.uniform(-89.0, 89.0), if i == 3 { 0.0 } else { level }, 7.0, 2000.0]).collect();
        for kind in ["cassinis", "jeffreys", "grs67", "grs80", "welmec", "default"] {
            g.push(format!("S_C14\tgrav\t{ellps}\t{kind}\t{}", data_of(&deg)), "oracle-gravity-ellipsoid", true);
            // (levels: several latitudes at one height - what an operator gives for a tuple does not depend on its neighbours)
            g.push(format!("S_C14\tgrav\t{ellps}\t{kind}\t{}", data_of(&levels)), "oracle-gravity-ellipsoid-levels", true);
            let name = if kind == "default" { String::new() } else { format!(" {kind}") };
            for zh in ["", " zero-height"] {
                g.push(op_line("default", &[], &[], &format!("gravity{name}{zh} ellps={ellps}"), "apply", "F", &data_of(&levels)), "model-gravity", true);
            }
        }
        // (azimuths in either convention: ]-180, 180] and [0, 360[, and a turn beyond)
        let gd: Vec<[f64; 4]> = (0..8).map(|i| [g.rng.uniform(-80.0, 80.0), g.rng.uniform(-170.0, 170.0), if i < 3 { g.rng.uniform(180.0, 360.0) } else { g.rng.uniform(-360.0, 400.0) }, g.rng.uniform(10.0, 1.5e7)]).collect();
        g.push(format!("S_C14\tgeod\t{ellps}\tF\t{}", data_of(&gd)), "oracle-geodesic-ellipsoid", true);
        let gi: Vec<[f64; 4]> = (0..6).map(|_| [g.rng.uniform(-70.0, 70.0), g.rng.uniform(-170.0, 170.0), g.rng.uniform(-70.0, 70.0), g.rng.uniform(-170.0, 170.0)]).collect();
        g.push(format!("S_C14\tgeod\t{ellps}\tI\t{}", data_of(&gi)), "oracle-geodesic-ellipsoid", true);
        // (nearly antipodal pairs, where the iteration takes tens or hundreds of rounds)
        let anti: Vec<[f64; 4]> = (0..6)
            .map(|i| {
                let (lat1, lon1) = (g.rng.uniform(-30.0, 30.0), g.rng.uniform(-170.0, -10.0));
                let off = [0.5, 0.7, 0.3, 1.0, 0.45, 2.0][i];
                [lat1, lon1, -lat1 + off * g.rng.uniform(0.8, 1.2), lon1 + 180.0 - off * g.rng.uniform(0.5, 1.2)]
            })
            .chain([[0.0, 0.0, 0.5, 179.5], [0.0, 0.0, 0.5, 179.3], [0.0, 0.0, 0.5, 179.7]])
            .collect();
        g.push(format!("S_C14\tgeod\t{ellps}\tI\t{}", data_of(&anti)), "oracle-geodesic-ellipsoid-nearly-antipodal", true);
        g.push(op_line("default", &[], &[], &format!("geodesic ellps={ellps}"), "apply", "I", &data_of(&anti)), "model-geodesic-nearly-antipodal", true);
        g.push(op_line("default", &[], &[], &format!("geodesic ellps={ellps}"), "apply", "F", &data_of(&gd)), "model-geodesic", true);
        g.push(op_line("default", &[], &[], &format!("geodesic ellps={ellps}"), "apply", "I", &data_of(&gi)), "model-geodesic", true);
        g.push(op_line("default", &[], &[], &format!("geodesic reversible ellps={ellps}"), "apply", "F", &data_of(&gd)), "model-geodesic", true);
        // the series against closed forms and quadrature
        g.push(format!("S_C14\tseries\t{ellps}\t\t{}", data_of(&geo)), "oracle-series-closed-forms", true);
        g.push(format!("S_C14\tseries\t{ellps}\trectifying\t{}", data_of(&geo)), "oracle-series-rectifying", true);
        g.push(format!("S_C14\tseries\t{ellps}\tarc\t{}", data_of(&geo)), "oracle-meridian-arc-quadrature", true);
    }
    // the series on spheres (every term vanishes, what is left must be the identity) and on the most flattened shapes
    for ellps in ["sphere", "unitsphere", "mprts", "6378137,150"] {
        let geo: Vec<[f64; 4]> = (0..8).map(|_| [g.rng.uniform(-3.1, 3.1), g.rng.uniform(-1.55, 1.55), 0.0, 2000.0]).collect();
        g.push(format!("S_C14\tseries\t{ellps}\t\t{}", data_of(&geo)), "oracle-series-closed-forms", true);
        g.push(format!("S_C14\tseries\t{ellps}\trectifying\t{}", data_of(&geo)), "oracle-series-rectifying", true);
        for kind in ["conformal", "rectifying", "authalic"] {
            g.push(op_line("default", &[], &[], &format!("latitude {kind} ellps={ellps}"), "apply", "F", &data_of(&geo)), "model-latitude-extreme-shapes", true);
            g.push(op_line("default", &[], &[], &format!("latitude {kind} ellps={ellps}"), "apply", "I", &data_of(&geo)), "model-latitude-extreme-shapes", true);
        }
    }
    // axisswap and adapt for the mappings they share
    let words = c11::valid_descriptors();
    for w in words.iter().filter(|w| !w.contains('_')).take(if thorough { 400 } else { 120 }) {
        // order[axis] = sign * (position + 1)
        let mut order = [0i32; 4];
        for (j, ch) in w.chars().take(4).enumerate() {
            let axis = c11::axis_of(ch);
            let sign = if "wsdp".contains(ch) { -1 } else { 1 };
            order[axis] = sign * (j as i32 + 1);
        }
        if order.contains(&0) {
            continue;
        }
        let a = format!("adapt from={w}");
        let b = format!("axisswap order={},{},{},{}", order[0], order[1], order[2], order[3]);
        let pts: Vec<[f64; 4]> = (0..4).map(|_| [g.rng.uniform(-9.0, 9.0), g.rng.uniform(-9.0, 9.0), g.rng.uniform(-9.0, 9.0), g.rng.uniform(-9.0, 9.0)]).collect();
        g.push(format!("S_C14\tsame\t{}\t{}\t{}", escape(&a), escape(&b), data_of(&pts)), "oracle-adapt-axisswap", true);
        g.push(op_line("default", &[], &[], &format!("{a} | {b} inv"), "apply", "F", &data_of(&pts)), "model-adapt-axisswap", true);
        g.push(op_line("default", &[], &[], &format!("{b} | {a} inv"), "apply", "F", &data_of(&pts)), "model-adapt-axisswap", true);
    }
    for (a, b) in [
        ("adapt from=enuf_deg", "unitconvert xy_in=deg xy_out=rad"), ("adapt to=enuf_deg", "unitconvert xy_in=rad xy_out=deg"),
        ("adapt from=enuf_gon", "unitconvert xy_in=grad xy_out=rad"), ("adapt from=neuf to=enuf", "axisswap order=2,1"), ("adapt from=enuf to=neuf", "axisswap order=2,1"),
        // the same with the `inv` modifier on either or both
        ("adapt inv from=enuf_deg", "unitconvert inv xy_in=deg xy_out=rad"), ("adapt to=enuf_deg", "unitconvert inv xy_in=deg xy_out=rad"), ("adapt inv to=enuf_gon", "unitconvert xy_in=grad xy_out=rad"),
        ("adapt from=enuf_deg", "unitconvert xy_out=deg xy_in=rad inv"), ("adapt inv from=neuf to=enuf", "axisswap inv order=2,1"), ("adapt from=wnuf inv", "axisswap order=-1,2 inv"),
        ("unitconvert inv xy_in=deg xy_out=rad z_in=ft z_out=m", "unitconvert xy_in=rad xy_out=deg z_in=m z_out=ft"), ("unitconvert inv z_in=km z_out=ft", "unitconvert z_in=ft z_out=km"),
    ] {
        let pts: Vec<[f64; 4]> = (0..8).map(|_| [g.rng.uniform(-180.0, 180.0), g.rng.uniform(-90.0, 90.0), g.rng.uniform(-9.0, 9.0), g.rng.uniform(-9.0, 9.0)]).collect();
        g.push(format!("S_C14\tsame\t{}\t{}\t{}", escape(a), escape(b), data_of(&pts)), "oracle-adapt-unitconvert", true);
        for def in [a, b] {
            for dir in ["F", "I"] {
                g.push(op_line("default", &[], &[], def, "apply", dir, &data_of(&pts)), "model-adapt-unitconvert", true);
            }
        }
    }
    // Minimal and Plain on one definition per operator with every documented parameter given a value that is not
    // its default (a parameter Plain's reading of the text loses or renames shows as a difference)
    for def in c09::EVERY_PARAMETER {
        if def.contains("grids") {
            continue;
        }
        // (values other than the defaults: k=0.3 is permtide's default)
        let def = def.replace(" k=0.3", " k=0.25");
        for (lo, hi) in [(-0.5, 0.5), (-3.0e6, 3.0e6)] {
            let pts: Vec<[f64; 4]> = (0..4).map(|_| [g.rng.uniform(lo, hi), g.rng.uniform(0.2, 1.2) * (hi / 0.5), g.rng.uniform(0.0, 100.0), 2020.0]).collect();
            g.push(format!("S_C14\tctx\t{}\t\t{}", escape(&def), data_of(&pts)), "oracle-minimal-plain-every-parameter", true);
        }
        g.push(format!("PROJ\t{}", escape(&def)), "geodesy-text-passes-through", true);
    }
    // ... and whatever was instantiated in the same context before: the built-in macros and their bodies, inverted
    // and not, the every-parameter definitions, in shuffled order
    {
        let mut pool: Vec<String> = vec![];
        for (name, body) in [("geo:in", "adapt from=neuf_deg"), ("geo:out", "adapt to=neuf_deg"), ("gis:in", "adapt from=enuf_deg"), ("gis:out", "adapt to=enuf_deg"), ("neu:in", "adapt from=neuf"), ("enu:out", "adapt to=enuf")] {
            for d in [name.to_string(), format!("{name} inv"), body.to_string(), format!("{body} inv"), format!("{name} | addone"), format!("{name} inv | addone")] {
                pool.push(d);
            }
        }
        for def in c09::EVERY_PARAMETER {
            if !def.contains("grids") {
                pool.push(def.to_string());
                pool.push(format!("{def} inv"));
            }
        }
        for _ in 0..(if thorough { 200 } else { 24 }) {
            let k = 3 + g.rng.below(6);
            let mut defs: Vec<String> = (0..k).map(|_| g.rng.pick(&pool).clone()).collect();
            // a macro inverted, then its body as written (what an identity of texts would confuse)
            if g.rng.chance(1, 2) {
                let (name, body) = *g.rng.pick(&[("geo:in", "adapt from=neuf_deg"), ("gis:out", "adapt to=enuf_deg"), ("neu:in", "adapt from=neuf")]);
                defs.insert(0, format!("{name} inv"));
                defs.push(body.to_string());
                defs.push(name.to_string());
            }
            let pts: Vec<[f64; 4]> = (0..3).map(|_| [g.rng.uniform(-0.5, 0.5), g.rng.uniform(0.2, 1.2), g.rng.uniform(0.0, 100.0), 2020.0]).collect();
            let mut f = vec!["S_C14H".to_string(), defs.len().to_string()];
            f.extend(defs.iter().map(|d| escape(d)));
            f.push(data_of(&pts));
            g.push(f.join("\t"), "oracle-minimal-plain-histories", true);
        }
    }
    // Minimal and Plain on every definition the library's own tests use (no grids, no resources)
    for def in c09::corpus() {
        if def.contains("grids") || def.contains(':') || def.contains('$') || def.contains("proj=") {
            continue;
        }
        let pts: Vec<[f64; 4]> = (0..4).map(|_| [g.rng.uniform(-0.5, 0.5), g.rng.uniform(0.2, 1.2), g.rng.uniform(0.0, 100.0), 2020.0]).collect();
        g.push(format!("S_C14\tctx\t{}\t\t{}", escape(&def), data_of(&pts)), "oracle-minimal-plain", true);
    }
}
