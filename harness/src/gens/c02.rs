//! C02: the result for a tuple depends on the operator and that tuple only
use super::{op_line, Gen};
use crate::wire::data_of;

pub const OPS: [&str; 59] = [
    "lcc lat_1=57 lon_0=12",
    "lcc lat_1=-33 lat_2=-45 lon_0=10",
    "omerc latc=55 lonc=12 alpha=30 gamma_c=30 k_0=0.9996",
    "somerc lat_0=55 lon_0=12",
    "btmerc lon_0=12 k_0=0.9996",
    "laea lat_0=90 lon_0=10",
    "laea lat_0=0 lon_0=10",
    "geodesic",
    "geodesic reversible",
    "latitude conformal",
    "curvature mean",
    "permtide from=mean to=zero",
    "cart | cart inv ellps=intl",
    "gridshift grids=test.datum inv",
    "gridshift grids=test_subset.datum,test.datum",
    "deflection grids=test.geoid",
    "addone",
    "helmert x=10 dx=1 t_epoch=2000",
    "helmert x=10 y=-3 z=2 rx=0.001 ry=0.002 rz=-0.003 s=0.01 dx=0.1 dy=0.2 dz=-0.1 drx=0.0001 ds=0.001 t_epoch=2010 convention=position_vector",
    "helmert x=10 rx=1 dx=1 drx=0.1 t_epoch=2000 exact convention=coordinate_frame",
    "helmert x=10 dx=1 ds=1 t_epoch=2000 t_obs=2020",
    "helmert translation=1,2,3 rotation=1,2,3 convention=position_vector",
    "cart | helmert x=100 y=20 z=-50 | cart inv",
    "cart ellps=intl | helmert x=-87 y=-96 z=-120 dx=0.01 t_epoch=1990 | cart inv",
    "utm zone=32",
    "utm zone=32 | helmert z=-37.5",
    "tmerc lon_0=9 k_0=0.9996 x_0=500000",
    "merc lon_0=9 x_0=100",
    "lcc lat_1=33 lat_2=45 lon_0=10",
    "laea lat_0=52 lon_0=10 x_0=4321000 y_0=3210000",
    "webmerc",
    "geo:in | utm zone=33 | neu:out",
    "adapt from=neuf_deg to=enuf_rad",
    "axisswap order=2,-1,3",
    // (orders that are not their own inverse, and that reach beyond what a short container stores)
    "axisswap order=2,3,1",
    "axisswap order=-3,1,2",
    "axisswap order=4,1,2,3",
    "unitconvert xy_in=deg xy_out=rad z_in=ft",
    "stack push=1,2 | addone | stack pop=1,2",
    "stack push=3 | helmert x=1 dx=1 t_epoch=2000 | stack flip=1 | stack pop=2",
    "push v_1 v_2 | utm zone=32 | pop v_2 v_1",
    "stack push=1 | stack pop=1,2",
    "molodensky ellps_0=intl ellps_1=GRS80 dx=-87 dy=-96 dz=-120",
    "latitude geocentric",
    "cart inv",
    "gridshift grids=test.datum",
    "gridshift grids=test.geoid",
    "gridshift grids=test.datum,@null | utm zone=32",
    "deformation dt=10 grids=test.deformation",
    "deformation dt=10 grids=test.deformation,ov.deformation",
    "deformation t_epoch=2000 grids=ov.deformation,test.deformation,@null",
    "deformation dt=10 grids=test.deformation,eur_nkg_nkgrf17vel.deformation",
    "deflection grids=test.geoid,@null",
    "gridshift grids=5458_with_subgrid.gsb",
    "gridshift grids=5458_with_subgrid.gsb,test.datum inv",
    "push v_1 v_2 | addone | pop v_2 v_1 v_3",
    "push v_3 | pop v_3 v_4",
    "deformation t_epoch=2000 grids=test.deformation",
    "deformation t_epoch=2010.5 grids=test.deformation,@null inv",
];

/// a second deformation grid overlapping `test.deformation` (54-58 N, 8-16 E) in 56-58 N, 12-16 E, with
/// other velocities (served to model and implementation through `OPG`; `Plain` does not have it)
pub fn overlapping_deformation_grid() -> (String, String, String) {
    let mut text = String::from("56. 60.   12. 20.   1. 1.\n\n");
    for row in 0..5 {
        for col in 0..9 {
            text += &format!("  {}.5 {}.25 {}.0 ", 20 + row, 30 + col, 3 + row + col);
        }
        text += "\n";
    }
    ("ov.deformation".to_string(), "gravsoftb".to_string(), super::grid::hex(text.as_bytes()))
}

fn cartesian(lat: f64, lon: f64, h: f64) -> [f64; 3] {
    let (a, f) = (6378137.0, 1.0 / 298.257222101);
    let es = f * (2.0 - f);
    let (phi, lam) = (lat.to_radians(), lon.to_radians());
    let n = a / (1.0 - es * phi.sin() * phi.sin()).sqrt();
    [(n + h) * phi.cos() * lam.cos(), (n + h) * phi.cos() * lam.sin(), (n * (1.0 - es) + h) * phi.sin()]
}

/// cartesian tuples for the deformation operator: inside one grid only, inside the overlap of
/// two, in the margin band, outside all, broken; neighbours in the set fall in different grids
pub fn deformation_set(g: &mut Gen, n: usize) -> Vec<[f64; 4]> {
    let spots: [(f64, f64); 12] = [(55.0, 12.0), (54.7, 9.3), (59.0, 18.0), (59.5, 19.5), (57.0, 14.0), (56.5, 13.0), (57.9, 15.9), (58.3, 12.0), (53.7, 10.0), (60.0, 20.0), (65.0, 30.0), (40.0, 0.0)];
    let epochs = [2000.0, 2010.5, 2020.0, f64::NAN];
    (0..n)
        .map(|_| {
            let (lat, lon) = *g.rng.pick(&spots);
            let jitter = if g.rng.chance(1, 4) { 0.0 } else { g.rng.uniform(-0.2, 0.2) };
            let c = cartesian(lat + jitter, lon - jitter, g.rng.uniform(0.0, 500.0));
            let t = *g.rng.pick(&epochs);
            match g.rng.below(16) {
                0 => [f64::NAN, c[1], c[2], t],
                1 => [c[0], c[1], f64::NAN, t],
                _ => [c[0], c[1], c[2], t],
            }
        })
        .collect()
}

/// (latitude, longitude) in degrees for the deflection operator: profiles along meridians and
/// parallels (neighbours sharing one element bit for bit), grid border, outside, broken
pub fn deflection_set(g: &mut Gen, n: usize) -> Vec<[f64; 4]> {
    let mut v: Vec<[f64; 4]> = vec![];
    for _ in 0..n {
        let fresh = [g.rng.uniform(54.2, 57.8), g.rng.uniform(8.2, 15.8), 0.0, 0.0];
        let c = match (g.rng.below(12), v.last().copied()) {
            (0..=2, Some(p)) if p[1].is_finite() => [g.rng.uniform(54.2, 57.8), p[1], 0.0, 0.0], // along a meridian
            (3..=4, Some(p)) if p[0].is_finite() => [p[0], g.rng.uniform(8.2, 15.8), 0.0, 0.0], // along a parallel
            (5, _) => [*g.rng.pick(&[54.0f64, 58.0, 53.6, 58.4, 59.0, 0.0]), g.rng.uniform(8.2, 15.8), 0.0, 0.0],
            (6, _) => [f64::NAN, 12.0, 0.0, 0.0],
            (7, _) => [55.0, f64::NAN, 0.0, 0.0],
            _ => fresh,
        };
        v.push(c);
    }
    v
}

/// geographic tuples (radians) for an NTv2 file with a densified child (5556: 55-56 N, 12-13 E, inside the
/// parent 5458: 54-58 N, 8-16 E): neighbours in the set alternate between parent-only, child, border, outside
pub fn subgrid_set(g: &mut Gen, n: usize) -> Vec<[f64; 4]> {
    let spots: [(f64, f64); 10] = [(57.0, 10.0), (55.25, 12.3), (55.75, 12.9), (54.5, 15.0), (55.5, 12.5), (55.0, 12.0), (56.0, 13.0), (55.5, 13.5), (59.0, 12.0), (55.99, 12.99)];
    (0..n)
        .map(|i| {
            let (lat, lon) = if i % 2 == 0 { *g.rng.pick(&spots[..1]) } else { *g.rng.pick(&spots) };
            let (lat, lon) = if g.rng.chance(1, 3) { (lat, lon) } else { (lat + g.rng.uniform(-0.2, 0.2), lon + g.rng.uniform(-0.2, 0.2)) };
            match g.rng.below(20) {
                0 => [f64::NAN, lat.to_radians(), 0.0, 0.0],
                _ => [lon.to_radians(), lat.to_radians(), 0.0, 0.0],
            }
        })
        .collect()
}

/// projected tuples (metres) for the inverse of a projection: near the false origin, across the
/// domain, far outside it (no point of the ellipsoid maps there), infinite, broken
pub fn projected_set(g: &mut Gen, n: usize) -> Vec<[f64; 4]> {
    let mut v: Vec<[f64; 4]> = vec![];
    for _ in 0..n {
        let t = *g.rng.pick(&[2000.0, 2010.5, f64::NAN]);
        let c = match g.rng.below(12) {
            0 => [f64::NAN, 6.1e6, 0.0, t],
            1 => [5.0e5, f64::NAN, 10.0, t],
            2 => [4.0e7, 1.0e6, 0.0, t],
            3 => [-3.0e5, *g.rng.pick(&[-9.0e7, 1.0e9, 1.0e300, f64::INFINITY]), 0.0, t],
            4 if !v.is_empty() => v[g.rng.below(v.len())],
            5 => [0.0, 0.0, 0.0, t],
            6 => [4321000.0, 3210000.0, 0.0, t],
            7 if v.last().map(|p| p[0].is_finite()).unwrap_or(false) => [v[v.len() - 1][0], g.rng.uniform(-3.0e6, 8.0e6), 0.0, t],
            8 if v.last().map(|p| p[1].is_finite()).unwrap_or(false) => [g.rng.uniform(-2.0e6, 5.0e6), v[v.len() - 1][1], 0.0, t],
            _ => [g.rng.uniform(-2.0e6, 5.0e6), g.rng.uniform(-3.0e6, 8.0e6), (g.rng.uniform(-100.0, 3000.0) * 100.0).round() / 100.0, t],
        };
        v.push(c);
    }
    v
}

/// geographic-ish tuples (radians) with mixed epochs, NaN members, far-out members, duplicates
pub fn mixed_set(g: &mut Gen, n: usize) -> Vec<[f64; 4]> {
    let epochs = [2000.0, 2001.0, 2002.0, 2001.0, f64::NAN, 2020.5, 2000.0];
    let mut v: Vec<[f64; 4]> = vec![];
    for i in 0..n {
        let kind = g.rng.below(14);
        let t = epochs[g.rng.below(epochs.len())];
        let c = match kind {
            // the poles, exactly; the half-cell margin band of the test grids (54-58 N, 8-16 E, cells of 1 degree)
            6 => [g.rng.uniform(-3.0, 3.0), if g.rng.chance(1, 2) { std::f64::consts::FRAC_PI_2 } else { -std::f64::consts::FRAC_PI_2 }, 0.0, t],
            7 => [(*g.rng.pick(&[12.0f64, 7.505, 16.495, 11.0])).to_radians(), (*g.rng.pick(&[53.501f64, 53.505, 53.51, 58.495, 58.499, 53.6])).to_radians(), 10.0, t],
            0 => [f64::NAN, 0.9, 0.0, t],
            1 => [0.2, f64::NAN, 10.0, t],
            2 => [3.0, 1.5, 1e7, t],        // far from every projection centre
            3 if !v.is_empty() => v[g.rng.below(v.len())], // duplicate
            4 => [0.0, 0.0, 0.0, t],
            5 => [12f64.to_radians(), 55f64.to_radians(), 100.0, t], // inside the test grids
            // on the meridian / the parallel of the tuple before (one element shared bit for bit, the other not)
            8 if v.last().map(|p| p[0].is_finite()).unwrap_or(false) => [v[v.len() - 1][0], g.rng.uniform(0.8, 1.1), 50.0, t],
            9 if v.last().map(|p| p[1].is_finite()).unwrap_or(false) => [g.rng.uniform(0.05, 0.35), v[v.len() - 1][1], 50.0, t],
            // the position of the tuple before, bit for bit, at another height or another epoch
            12 if v.last().map(|p| p[0].is_finite() && p[1].is_finite()).unwrap_or(false) => [v[v.len() - 1][0], v[v.len() - 1][1], v[v.len() - 1][2] + *g.rng.pick(&[8000.0, -350.0, 1.0e5]), v[v.len() - 1][3]],
            13 if v.last().map(|p| p[0].is_finite() && p[1].is_finite()).unwrap_or(false) => [v[v.len() - 1][0], v[v.len() - 1][1], v[v.len() - 1][2], t],
            _ => [
                g.rng.uniform(0.05, 0.35),
                g.rng.uniform(0.8, 1.1),
                (g.rng.uniform(-100.0, 3000.0) * 100.0).round() / 100.0,
                t,
            ],
        };
        let _ = i;
        v.push(c);
    }
    v
}

/// two operators of one kind with different parameters are two operators: what one computes does not depend on
/// the other having been made or used first (nothing is shared between them that depends on the parameters) -
/// judged by the relations the parameters stand for (a false origin is a translation of the plane)
fn siblings(g: &mut Gen, thorough: bool) {
    use super::proj;
    for _ in 0..(if thorough { 12 } else { 2 }) {
        for name in proj::PROJECTIONS {
            let mut d = proj::random(&mut g.rng, name);
            if !d.has_xy {
                continue;
            }
            if d.x_0 == 0.0 {
                d.x_0 = 250000.0;
            }
            let pts = proj::points(&mut g.rng, &d, 5);
            let ex = format!("{},{}", crate::wire::fbits(d.x_0), crate::wire::fbits(d.y_0));
            let (a, b) = (d.def(), d.def_with(&d.ellps, d.lon_0, d.k_0, 0.0, 0.0));
            // in both orders: whichever is used first must not leave anything behind for the other
            for (a, b, ex) in [(a.clone(), b.clone(), ex.clone()), (b, a, format!("{},{}", crate::wire::fbits(-d.x_0), crate::wire::fbits(-d.y_0)))] {
                g.push(
                    format!("S_C13\torigin\t{}\t{}\t{}\t{}", crate::wire::escape(&a), crate::wire::escape(&b), ex, crate::wire::data_of(&pts)),
                    "oracle-siblings",
                    true,
                );
                g.push(super::op_line("default", &[], &[], &a, "apply", "F", &crate::wire::data_of(&pts)), "model-siblings", true);
            }
        }
        let pts: Vec<[f64; 4]> = (0..4).map(|_| [g.rng.uniform(-1e6, 1e6), g.rng.uniform(-1e6, 1e6), g.rng.uniform(-1e3, 1e3), 2020.0]).collect();
        for (a, b, x, y) in [("helmert x=3 y=4", "helmert x=0", 3.0, 4.0), ("helmert x=-250 y=17", "helmert y=0", -250.0, 17.0), ("helmert y=0", "helmert x=-250 y=17", 250.0, -17.0)] {
            g.push(
                format!("S_C13\torigin\t{}\t{}\t{},{}\t{}", crate::wire::escape(a), crate::wire::escape(b), crate::wire::fbits(x), crate::wire::fbits(y), crate::wire::data_of(&pts)),
                "oracle-siblings",
                true,
            );
        }
    }
}

pub fn generate(g: &mut Gen, thorough: bool) {
    siblings(g, thorough);
    let rounds = if thorough { 40 } else { 4 };
    for round in 0..rounds {
        for def in OPS {
            let n = match (round + def.len()) % 6 {
                0 => 0,
                1 => 1,
                2 => 2,
                3 => 7,
                4 => 40,
                _ => {
                    if thorough && round % 10 == 0 {
                        20000
                    } else if round % 2 == 0 {
                        1500 // beyond any batch size an implementation is likely to pick (1024, 1000)
                    } else {
                        300
                    }
                }
            };
            // (Vincenty's iteration runs to its limit of 1000 rounds for every non-converging pair: 20000 tuples,
            // evaluated as a set, one by one and permuted, do not fit the per-case time limit)
            let n = if def.starts_with("geodesic") { n.min(1500) } else { n };
            // every pipeline once on a set beyond any likely internal batch size
            let n = if def.contains('|') && round == 1 { 1500 } else { n };
            let set = if def.starts_with("deformation") {
                deformation_set(g, n)
            } else if def.starts_with("deflection") {
                deflection_set(g, n)
            } else {
                mixed_set(g, n)
            };
            let set = if def.contains("with_subgrid") { subgrid_set(g, n) } else { set };
            let kind = if def.contains("grids=") { "plain-new" } else { "new" };
            let projection = !def.contains('|') && ["lcc", "omerc", "somerc", "btmerc", "laea", "utm", "tmerc", "merc", "webmerc"].iter().any(|p| def.starts_with(p));
            for dir in ["F", "I"] {
                let data = if dir == "I" && projection { data_of(&projected_set(g, n)) } else { data_of(&set) };
                let seed = g.rng.next() % 1000000;
                g.push(
                    format!("S_C02\t{}\t{}\t{}\t{}\t{}", kind, crate::wire::escape(def), dir, seed, data),
                    &format!("oracle-n{}", if n > 100 { "big".to_string() } else { n.to_string() }),
                    n >= 2,
                );
                // model/implementation correspondence for the operators the model covers
                if n <= 40 && !def.contains("grids=") && !def.contains(':') {
                    g.push(op_line(kind, &[], &[], def, "apply", dir, &data), "model", n >= 2);
                }
                if n <= 40 && def.contains("grids=") {
                    let mut grids = super::shipped_grids_of(def);
                    if def.contains("ov.deformation") {
                        grids.push(overlapping_deformation_grid());
                    }
                    g.push(super::opg_line(&grids, def, "apply", dir, &data), "model-grids", n >= 2);
                }
            }
        }
    }
}
