//! C02: the result for a tuple depends on the operator and that tuple only
use super::{op_line, Gen};
use crate::wire::data_of;

pub const OPS: [&str; 46] = [
    "lcc lat_1=57 lon_0=12",
    "lcc lat_1=-33 lat_2=-45 lon_0=10",
    "omerc latc=55 lonc=12 alpha=30 gamma_c=30 k_0=0.9996",
    "somerc lat_0=55 lon_0=12",
    "btmerc lon_0=12 k_0=0.9996",
    "laea lat_0=90 lon_0=10",
    "laea lat_0=0 lon_0=10",
    "geodesic",
    "geodesic reversible",
    "latitude conformal",
    "curvature mean",
    "permtide from=mean to=zero",
    "cart | cart inv ellps=intl",
    "gridshift grids=test.datum inv",
    "gridshift grids=test_subset.datum,test.datum",
    "deflection grids=test.geoid",
    "addone",
    "helmert x=10 dx=1 t_epoch=2000",
    "helmert x=10 y=-3 z=2 rx=0.001 ry=0.002 rz=-0.003 s=0.01 dx=0.1 dy=0.2 dz=-0.1 drx=0.0001 ds=0.001 t_epoch=2010 convention=position_vector",
    "helmert x=10 rx=1 dx=1 drx=0.1 t_epoch=2000 exact convention=coordinate_frame",
    "helmert x=10 dx=1 ds=1 t_epoch=2000 t_obs=2020",
    "helmert translation=1,2,3 rotation=1,2,3 convention=position_vector",
    "cart | helmert x=100 y=20 z=-50 | cart inv",
    "cart ellps=intl | helmert x=-87 y=-96 z=-120 dx=0.01 t_epoch=1990 | cart inv",
    "utm zone=32",
    "utm zone=32 | helmert z=-37.5",
    "tmerc lon_0=9 k_0=0.9996 x_0=500000",
    "merc lon_0=9 x_0=100",
    "lcc lat_1=33 lat_2=45 lon_0=10",
    "laea lat_0=52 lon_0=10 x_0=4321000 y_0=3210000",
    "webmerc",
    "geo:in | utm zone=33 | neu:out",
    "adapt from=neuf_deg to=enuf_rad",
    "axisswap order=2,-1,3",
    "unitconvert xy_in=deg xy_out=rad z_in=ft",
    "stack push=1,2 | addone | stack pop=1,2",
    "stack push=3 | helmert x=1 dx=1 t_epoch=2000 | stack flip=1 | stack pop=2",
    "push v_1 v_2 | utm zone=32 | pop v_2 v_1",
    "stack push=1 | stack pop=1,2",
    "molodensky ellps_0=intl ellps_1=GRS80 dx=-87 dy=-96 dz=-120",
    "latitude geocentric",
    "cart inv",
    "gridshift grids=test.datum",
    "gridshift grids=test.geoid",
    "gridshift grids=test.datum,@null | utm zone=32",
    "deformation dt=10 grids=test.deformation",
];

/// geographic-ish tuples (radians) with mixed epochs, NaN members, far-out members, duplicates
pub fn mixed_set(g: &mut Gen, n: usize) -> Vec<[f64; 4]> {
    let epochs = [2000.0, 2001.0, 2002.0, 2001.0, f64::NAN, 2020.5, 2000.0];
    let mut v: Vec<[f64; 4]> = vec![];
    for i in 0..n {
        let kind = g.rng.below(12);
        let t = epochs[g.rng.below(epochs.len())];
        let c = match kind {
            // the poles, exactly; the half-cell margin band of the test grids (54-58 N, 8-16 E, cells of 1 degree)
            6 => [g.rng.uniform(-3.0, 3.0), if g.rng.chance(1, 2) { std::f64::consts::FRAC_PI_2 } else { -std::f64::consts::FRAC_PI_2 }, 0.0, t],
            7 => [(*g.rng.pick(&[12.0f64, 7.505, 16.495, 11.0])).to_radians(), (*g.rng.pick(&[53.501f64, 53.505, 53.51, 58.495, 58.499, 53.6])).to_radians(), 10.0, t],
            0 => [f64::NAN, 0.9, 0.0, t],
            1 => [0.2, f64::NAN, 10.0, t],
            2 => [3.0, 1.5, 1e7, t],        // far from every projection centre
            3 if !v.is_empty() => v[g.rng.below(v.len())], // duplicate
            4 => [0.0, 0.0, 0.0, t],
            5 => [12f64.to_radians(), 55f64.to_radians(), 100.0, t], // inside the test grids
            _ => [
                g.rng.uniform(0.05, 0.35),
                g.rng.uniform(0.8, 1.1),
                (g.rng.uniform(-100.0, 3000.0) * 100.0).round() / 100.0,
                t,
            ],
        };
        let _ = i;
        v.push(c);
    }
    v
}

pub fn generate(g: &mut Gen, thorough: bool) {
    let rounds = if thorough { 40 } else { 4 };
    for round in 0..rounds {
        for def in OPS {
            let n = match (round + def.len()) % 6 {
                0 => 0,
                1 => 1,
                2 => 2,
                3 => 7,
                4 => 40,
                _ => {
                    if thorough && round % 10 == 0 {
                        20000
                    } else {
                        300
                    }
                }
            };
            let set = mixed_set(g, n);
            let data = data_of(&set);
            let kind = if def.contains("grids=") { "plain-new" } else { "new" };
            for dir in ["F", "I"] {
                let seed = g.rng.next() % 1000000;
                g.push(
                    format!("S_C02\t{}\t{}\t{}\t{}\t{}", kind, crate::wire::escape(def), dir, seed, data),
                    &format!("oracle-n{}", if n > 100 { "big".to_string() } else { n.to_string() }),
                    n >= 2,
                );
                // model/implementation correspondence for the operators the model covers
                if n <= 40 && !def.contains("grids=") && !def.contains(':') {
                    g.push(op_line(kind, &[], &[], def, "apply", dir, &data), "model", n >= 2);
                }
                if n <= 40 && def.contains("grids=") {
                    g.push(super::opg_line(&super::shipped_grids_of(def), def, "apply", dir, &data), "model-grids", n >= 2);
                }
            }
        }
    }
}
