//! C05: the geometry that defines each projection, by finite differences
use super::proj::{self, ProjDef};
use super::{op_line, Gen};
use crate::wire::{data_of, escape, fbits};

fn case(g: &mut Gen, kind: &str, def: &str, extra: &[f64], pts: &[[f64; 4]], class: &str) {
    let ex: Vec<String> = extra.iter().map(|v| fbits(*v)).collect();
    g.push(format!("S_C05\t{kind}\t{}\t{}\t{}", escape(def), ex.join(","), data_of(pts)), &format!("oracle-{class}"), true);
}

pub fn generate(g: &mut Gen, thorough: bool) {
    let rounds = if thorough { 60 } else { 6 };
    // conformal projections: angles preserved at every point of the domain
    for name in ["merc", "webmerc", "tmerc", "utm", "lcc", "omerc", "somerc", "btmerc"] {
        for _ in 0..rounds {
            let mut d = proj::random(&mut g.rng, name);
            if name == "tmerc" || name == "utm" {
                d.extent = (if thorough { 55.0 } else { 30.0 }, 85.0);
            }
            let def = d.def();
            let pts = proj::points(&mut g.rng, &d, 8);
            // btmerc is a truncated series: conformal to its own accuracy within the strip
            let tol = if name == "btmerc" { 2e-6 } else if name == "omerc" { 1e-7 } else { 2e-8 };
            case(g, if name == "webmerc" { "conformal-sphere" } else { "conformal" }, &def, &[tol], &pts, &format!("conformal-{name}"));
            g.push(op_line("default", &[], &[], &def, "apply", "F", &data_of(&pts)), &format!("model-{name}"), true);
        }
    }
    // central meridians next to the antimeridian: the points within the strip whose longitudes, written in
    // ]-180, 180], have the other sign are points of the domain like any other
    for (def, lon_0) in [("utm zone=60", 177.0), ("utm zone=1", -177.0), ("tmerc lon_0=170 k_0=0.9996", 170.0), ("tmerc lon_0=-165 ellps=intl", -165.0), ("tmerc lon_0=180", 180.0)] {
        let pts: Vec<[f64; 4]> = [-25.0, -12.0, -4.0, -1.0, 0.5, 2.0, 4.0, 11.0, 16.0, 28.0]
            .iter()
            .map(|d| {
                let mut lon: f64 = lon_0 + d;
                if lon > 180.0 {
                    lon -= 360.0;
                }
                if lon <= -180.0 {
                    lon += 360.0;
                }
                [lon.to_radians(), g.rng.uniform(-1.4, 1.4), 0.0, 0.0]
            })
            .collect();
        case(g, "conformal", def, &[2e-8], &pts, "conformal-across-the-antimeridian");
        g.push(op_line("default", &[], &[], def, "apply", "F", &data_of(&pts)), "model-across-the-antimeridian", true);
    }
    // omerc with an initial line running due east at the centre (alpha = 90: Hungary, Switzerland), at every
    // latitude of the centre; with and without gamma_c (Laborde); variants A and B
    for latc in [4.0, 20.0, 36.0, 45.0, 47.14439372222, -45.0, -20.0, 60.0, 75.0] {
        for ellps in ["GRS67", "GRS80", "bessel", "intl"] {
            let (lonc, k_0, x_0, y_0) = (19.04857177778, 0.99993, 650000.0, 200000.0);
            let centre = [[(lonc as f64).to_radians(), (latc as f64).to_radians(), 0.0, 0.0]];
            let d = ProjDef { name: "omerc", shape: String::new(), ellps: ellps.into(), lon_0: lonc, lat_0: None, k_0, x_0, y_0, has_lon0: true, has_k0: true, has_xy: true, centre: (lonc, latc), extent: (5.0, 4.0) };
            let pts = proj::points(&mut g.rng, &d, 6);
            for shape in ["alpha=90 gamma_c=90 variant", "alpha=90 variant", "alpha=90", "alpha=90 gamma_c=90", "alpha=-90 gamma_c=-90 variant"] {
                let def = format!("omerc latc={latc} lonc={lonc} {shape} k_0={k_0} x_0={x_0} y_0={y_0} ellps={ellps}");
                case(g, "conformal", &def, &[1e-7], &pts, "conformal-omerc-due-east");
                case(g, "scale", &def, &[k_0, 1e-8], &centre, "true-scale-omerc-due-east");
                g.push(op_line("default", &[], &[], &def, "apply", "F", &data_of(&pts)), "model-omerc-due-east", true);
                if shape.starts_with("alpha=90") && (shape.contains("variant") || !shape.contains("gamma_c")) {
                    case(g, "origin", &def, &[x_0, y_0], &centre, "false-origin-omerc-due-east");
                    g.push(op_line("default", &[], &[], &def, "apply", "F", &data_of(&centre)), "model-origin-omerc-due-east", true);
                }
            }
        }
    }
    // omerc without gamma_c (the Laborde case: variant B with gamma_c = alpha), with and without the flag
    for _ in 0..rounds {
        let d = proj::random(&mut g.rng, "omerc");
        let def = d.def();
        let Some(at) = def.find(" gamma_c=") else { continue };
        let end = def[at + 1..].find(' ').map(|e| at + 1 + e).unwrap_or(def.len());
        let def = format!("{}{}", &def[..at], &def[end..]);
        let pts = proj::points(&mut g.rng, &d, 8);
        case(g, "conformal", &def, &[1e-7], &pts, "conformal-omerc-laborde");
        g.push(op_line("default", &[], &[], &def, "apply", "F", &data_of(&pts)), "model-omerc-laborde", true);
        let alpha: f64 = def.split("alpha=").nth(1).unwrap().split(' ').next().unwrap().parse().unwrap();
        if alpha.abs() < 90.0 {
            let centre = [[d.centre.0.to_radians(), d.centre.1.to_radians(), 0.0, 0.0]];
            case(g, "origin", &def, &[d.x_0, d.y_0], &centre, "false-origin-omerc-laborde");
            g.push(op_line("default", &[], &[], &def, "apply", "F", &data_of(&centre)), "model-origin-omerc-laborde", true);
        }
    }
    // laea preserves areas, in every aspect
    for _ in 0..rounds {
        for lat_0 in [90.0, -90.0, 0.0, 52.0, -30.0] {
            let d0 = proj::random(&mut g.rng, "laea");
            let d = ProjDef { lat_0: Some(lat_0), centre: (d0.lon_0, (lat_0 as f64).clamp(-50.0, 50.0)), extent: (60.0, 35.0), ..d0 };
            let pts = proj::points(&mut g.rng, &d, 8);
            case(g, "equal-area", &d.def(), &[2e-8], &pts, "equal-area-laea");
            g.push(op_line("default", &[], &[], &d.def(), "apply", "F", &data_of(&pts)), "model-laea", true);
        }
    }
    // lines of true scale and origins
    for _ in 0..rounds {
        let ellps = *g.rng.pick(&proj::ELLPS);
        let lon_0: f64 = *g.rng.pick(&[0.0, 9.0, -75.5, 120.25]);
        let k_0 = *g.rng.pick(&[1.0, 0.9996, 0.9999, 1.0002]);
        let (x_0, y_0) = (*g.rng.pick(&[0.0, 500000.0, -1234.5]), *g.rng.pick(&[0.0, 10000000.0, 777.25]));
        let tail = format!("lon_0={lon_0} k_0={k_0} x_0={x_0} y_0={y_0} ellps={ellps}");
        // tmerc: k_0 along the central meridian; northing there = k_0 * meridian arc from lat_0
        let lat_0 = *g.rng.pick(&[0.0, 49.0, -33.0]);
        let lats: Vec<[f64; 4]> = (0..8).map(|_| [lon_0.to_radians(), g.rng.uniform(-1.45, 1.45), 0.0, 0.0]).collect();
        case(g, "tmerc-meridian", &format!("tmerc lat_0={lat_0} {tail}"), &[k_0, lat_0, x_0, y_0], &lats, "true-scale-tmerc");
        // merc: k_0 on the equator, or unity at lat_ts
        let eq: Vec<[f64; 4]> = (0..6).map(|_| [g.rng.uniform(-3.0, 3.0), 0.0, 0.0, 0.0]).collect();
        case(g, "scale", &format!("merc {tail}"), &[k_0, 1e-9], &eq, "true-scale-merc-equator");
        let ts = *g.rng.pick(&[56.0, -56.0, 30.0, -40.0, 10.5, -75.0]);
        let par: Vec<[f64; 4]> = (0..6).map(|_| [g.rng.uniform(-3.0, 3.0), (ts as f64).to_radians(), 0.0, 0.0]).collect();
        case(g, "scale", &format!("merc lat_ts={ts} lon_0={lon_0} ellps={ellps}"), &[1.0, 1e-9], &par, "true-scale-merc-lat_ts");
        g.push(op_line("default", &[], &[], &format!("merc lat_ts={ts} lon_0={lon_0} ellps={ellps}"), "apply", "F", &data_of(&par)), "model-merc-lat_ts", true);
        // lcc over both hemispheres
        let both: Vec<[f64; 4]> = (0..6).map(|_| [lon_0.to_radians() + g.rng.uniform(-1.0, 1.0), g.rng.uniform(-0.6, 1.2), 0.0, 0.0]).collect();
        case(g, "conformal", &format!("lcc lat_1=33 lat_2=45 lon_0={lon_0} ellps={ellps}"), &[2e-8], &both, "conformal-lcc-both-hemispheres");
        g.push(op_line("default", &[], &[], &format!("lcc lat_1=33 lat_2=45 lon_0={lon_0} ellps={ellps}"), "apply", "F", &data_of(&both)), "model-lcc-both-hemispheres", true);
        // lcc: k_0 on the standard parallel(s)
        let s = if g.rng.chance(1, 3) { -1.0 } else { 1.0 };
        let p1 = s * *g.rng.pick(&[20.0, 33.0, 45.0, 57.0]);
        let p2 = p1 + s * 12.0;
        for (def, ps) in [(format!("lcc lat_1={p1} {tail}"), vec![p1]), (format!("lcc lat_1={p1} lat_2={p2} {tail}"), vec![p1, p2])] {
            for p in ps {
                let pts: Vec<[f64; 4]> = (0..4).map(|_| [lon_0.to_radians() + g.rng.uniform(-1.0, 1.0), (p as f64).to_radians(), 0.0, 0.0]).collect();
                case(g, "scale", &def, &[k_0, 1e-9], &pts, "true-scale-lcc");
            }
        }
        // somerc, omerc: k_0 at the centre
        let lat_c = *g.rng.pick(&[46.95, -35.0, 20.0]);
        case(g, "scale", &format!("somerc lat_0={lat_c} {tail}"), &[k_0, 1e-9], &[[lon_0.to_radians(), (lat_c as f64).to_radians(), 0.0, 0.0]], "true-scale-somerc");
        // (the azimuth of the initial line in the right half plane, as in every published definition)
        let alpha = *g.rng.pick(&[53.3, 30.0, -40.0, 75.0]);
        case(g, "scale", &format!("omerc latc={lat_c} lonc={lon_0} alpha={alpha} gamma_c={alpha} k_0={k_0} x_0={x_0} y_0={y_0} ellps={ellps}"), &[k_0, 1e-8], &[[lon_0.to_radians(), (lat_c as f64).to_radians(), 0.0, 0.0]], "true-scale-omerc");
        // the false origin is the image of the projection centre
        for (def, clat) in [
            (format!("merc {tail}"), 0.0), (format!("merc lat_0={lat_c} {tail}"), lat_c), (format!("tmerc lat_0={lat_0} {tail}"), lat_0), (format!("btmerc lat_0={lat_0} {tail}"), lat_0),
            (format!("lcc lat_1={p1} lat_0={} {tail}", p1 - s * 4.0), p1 - s * 4.0), (format!("lcc lat_1={p1} {tail}"), p1), (format!("lcc lat_1={p1} lat_0=0 {tail}"), 0.0), (format!("lcc lat_1={p1} lat_2={p2} lat_0=0 {tail}"), 0.0),
            (format!("laea lat_0={lat_c} lon_0={lon_0} x_0={x_0} y_0={y_0} ellps={ellps}"), lat_c), (format!("somerc lat_0={lat_c} {tail}"), lat_c),
            // every aspect of laea has its centre: both poles, the equator
            (format!("laea lat_0=90 lon_0={lon_0} x_0={x_0} y_0={y_0} ellps={ellps}"), 90.0), (format!("laea lat_0=-90 lon_0={lon_0} x_0={x_0} y_0={y_0} ellps={ellps}"), -90.0),
            (format!("laea lat_0=0 lon_0={lon_0} x_0={x_0} y_0={y_0} ellps={ellps}"), 0.0),
            (format!("omerc latc={lat_c} lonc={lon_0} alpha={alpha} gamma_c={alpha} k_0={k_0} x_0={x_0} y_0={y_0} ellps={ellps} variant"), lat_c),
        ] {
            case(g, "origin", &def, &[x_0, y_0], &[[lon_0.to_radians(), (clat as f64).to_radians(), 0.0, 0.0]], "false-origin");
            g.push(op_line("default", &[], &[], &def, "apply", "F", &data_of(&[[lon_0.to_radians(), (clat as f64).to_radians(), 0.0, 0.0]])), "model-origin", true);
        }
    }
}
