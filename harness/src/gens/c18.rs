//! C18: histories of API calls on a context; Plain register files
use super::Gen;
use crate::rng::Rng;

fn esc(s: &str) -> String {
    crate::wire::escape(s).replace('|', "\\u{7c}")
}

const NAMES_PLAIN: [&str; 11] = ["addone", "noop", "helmert", "add2", "myop", "stack", "x", "inv", "latlon", "longlat", "lonlat"];
const NAMES_COLON: [&str; 17] = ["m:a", "m:b", "geo:in", "addone:x", "n:c", "m:a_long", "stupid:way", "stupid:addone", "stupid:way_three",
    // not names of anything: a known name with one more part
    "stupid:way:nonexistent", "stupid:addone:v2", "m:a:x", "stupid:",
    // a dot is part of the name, not the start of a file extension
    "stupid:way.v2", "stupid.v2:way_too", "stupid.md:way_too", "stupid:way.resource"];
const CTORS: [&str; 4] = ["u:add2", "u:oneway3", "u:needv", "u:needv"];
const BODIES: [&str; 8] = ["addone", "addone | addone", "addone inv", "m:a | addone", "helmert x=$v(3)", "m:b v=5", "add2 | m:a inv", "noop"];

fn random_def(r: &mut Rng) -> String {
    let pick = |r: &mut Rng| -> String {
        if r.chance(1, 2) {
            r.pick(&NAMES_PLAIN).to_string()
        } else {
            r.pick(&NAMES_COLON).to_string()
        }
    };
    match r.below(9) {
        // pipelines that leave something on their stack, or find it empty: nothing of that outlives the application
        7 => r.pick(&["addone | stack pop=1", "stack push=1,2 | addone | stack pop=1", "stack pop=1,2 | addone", "stack push=3 | addone", "stack push=1 | stack swap | stack pop=1", "push v_1 v_2 | addone", "addone | pop v_1", "stack push=1,2,3,4 | stack roll=3,1 | stack pop=2"]).to_string(),
        8 => format!("{} | stack pop=1 | {}", pick(r), pick(r)),
        // a colon in an argument value must not make the step look like a macro invocation
        5 => format!("{} crs=EPSG:25832", pick(r)),
        6 => format!("{} v=7 | {} note=a:b inv", pick(r), pick(r)),
        0 => pick(r),
        1 => format!("{} inv", pick(r)),
        2 => format!("{} | {}", pick(r), pick(r)),
        3 => format!("{} | {} inv | helmert x=2", pick(r), pick(r)),
        _ => format!("{} v=7", pick(r)),
    }
}

/// register files of every layout, the items in every order (a name may be the beginning of another name that
/// comes earlier or later in the file)
pub fn register_cases(g: &mut Gen, nreg: usize) {
    let items = [("one", "addone"), ("two", "addone | addone inv"), ("one_more", "noop"), ("zz", "helmert x=1\n| addone")];
    for _ in 0..nreg {
        let eol = *g.rng.pick(&["\n", "\r\n", "\r"]);
        let mut text = String::new();
        if g.rng.chance(1, 2) {
            text += &format!("# A register{eol}{eol}Some text.{eol}");
        }
        let k = 1 + g.rng.below(items.len());
        let mut order: Vec<usize> = (0..items.len()).collect();
        for i in (1..order.len()).rev() {
            let j = g.rng.below(i + 1);
            order.swap(i, j);
        }
        let mut present = vec![];
        for (i, at) in order.iter().take(k).enumerate() {
            let (name, body) = items[*at];
            text += &format!("```geodesy:{name}{eol}{}{eol}", body.replace('\n', eol));
            let last = i + 1 == k;
            if !(last && g.rng.chance(1, 3)) {
                text += &format!("```{eol}");
                if g.rng.chance(1, 2) {
                    text += &format!("{eol}More prose, and an unrelated fence:{eol}```sh{eol}ls{eol}```{eol}");
                }
            }
            present.push(name);
        }
        let ask = *g.rng.pick(&["one", "two", "one_more", "zz", "on", "three", "one_", "", "one", "z"]);
        g.push(format!("REG\t{}\t{}", crate::wire::escape(&text), crate::wire::escape(ask)), "register", true);
        g.push(
            format!("S_C18R\t{}\t{}\t{}", crate::wire::escape(&text), crate::wire::escape(ask), if present.contains(&ask) { 1 } else { 0 }),
            "oracle-register",
            true,
        );
    }
}

/// a macro reached through other macros is registered again: the very same definition text, instantiated once
/// more, is built from the new body (and the handle made before keeps its behaviour), at any depth of indirection
pub fn redefinition_histories(g: &mut Gen) {
    let data = super::probe_data(2);
    for kind in ["default", "new", "plain"] {
        for depth in 1..=3usize {
            for (b1, b2) in [("addone", "addone | addone | addone"), ("helmert x=3", "helmert x=-4 y=1"), ("noop", "addone inv")] {
                for top in ["m:l0", "m:l0 | addone", "addone | m:l0 inv | helmert z=2", "m:l0 | m:l0"] {
                    let mut calls = vec![];
                    // m:l0 -> m:l1 -> ... -> m:l<depth> = the body that changes
                    for k in 0..depth {
                        calls.push(format!("S|{}|{}", esc(&format!("m:l{k}")), esc(&format!("m:l{} | noop", k + 1))));
                    }
                    calls.push(format!("S|{}|{}", esc(&format!("m:l{depth}")), esc(b1)));
                    calls.push(format!("O|{}", esc(top)));
                    calls.push(format!("A|0|F|{data}"));
                    calls.push(format!("S|{}|{}", esc(&format!("m:l{depth}")), esc(b2)));
                    calls.push(format!("O|{}", esc(top)));
                    calls.push(format!("A|1|F|{data}"));
                    calls.push(format!("A|0|F|{data}"));
                    calls.push(format!("A|1|I|{data}"));
                    let line = format!("{}\t{}", kind, calls.join("\t"));
                    g.push(format!("HIST\t{line}"), "hist-redefinition-through-macros", true);
                    g.push(format!("S_C18\t{line}"), "oracle-hist-redefinition-through-macros", true);
                }
            }
        }
    }
}

pub fn generate(g: &mut Gen, thorough: bool) {
    let n = if thorough { 12000 } else { 1200 };
    let data = super::probe_data(2);
    // every built-in name is a name a user may take: the other names of the no-operation are names of their own
    for kind in ["default", "plain"] {
        for (taken, other) in [("latlon", "noop"), ("longlat", "latlong"), ("lonlat", "latlon"), ("noop", "longlat"), ("latlong", "noop")] {
            for ctor in ["u:add2", "u:oneway3"] {
                let calls = vec![
                    format!("O|{}", esc(taken)),
                    format!("R|{}|{ctor}", esc(taken)),
                    format!("O|{}", esc(taken)),
                    format!("O|{}", esc(other)),
                    format!("O|{}", esc(&format!("addone | {taken} | {other}"))),
                    format!("A|0|F|{data}"),
                    format!("A|1|F|{data}"),
                    format!("A|2|F|{data}"),
                    format!("A|3|F|{data}"),
                    format!("A|3|I|{data}"),
                ];
                let line = format!("{}\t{}", kind, calls.join("\t"));
                g.push(format!("HIST\t{line}"), "hist-names-of-the-no-operation", true);
                g.push(format!("S_C18\t{line}"), "oracle-hist-names-of-the-no-operation", true);
            }
        }
    }
    for _ in 0..n {
        let kind = *g.rng.pick(&["default", "new", "plain", "plain-new"]);
        let len = 3 + g.rng.below(14);
        let mut calls: Vec<String> = vec![];
        let mut made = 0usize; // number of `op` calls so far (an upper bound on live handles)
        for _ in 0..len {
            match g.rng.below(10) {
                0 => calls.push(format!("R|{}|{}", esc(*g.rng.pick(&NAMES_PLAIN)), g.rng.pick(&CTORS))),
                1 => calls.push(format!("R|{}|{}", esc(*g.rng.pick(&NAMES_COLON)), g.rng.pick(&CTORS))),
                2 | 3 => {
                    let name = if g.rng.chance(4, 5) { *g.rng.pick(&NAMES_COLON) } else { *g.rng.pick(&NAMES_PLAIN) };
                    calls.push(format!("S|{}|{}", esc(name), esc(*g.rng.pick(&BODIES))));
                }
                4 | 5 | 6 => {
                    calls.push(format!("O|{}", esc(&random_def(&mut g.rng))));
                    made += 1;
                }
                7 | 8 => {
                    let h = g.rng.below(made + 2);
                    let dir = if g.rng.chance(1, 2) { "F" } else { "I" };
                    calls.push(format!("A|{h}|{dir}|{data}"));
                }
                _ => {
                    let h = g.rng.below(made + 2);
                    if g.rng.chance(1, 2) {
                        calls.push(format!("T|{h}"));
                    } else {
                        calls.push(format!("P|{h}|{}", g.rng.below(3)));
                    }
                }
            }
        }
        let line = format!("{}\t{}", kind, calls.join("\t"));
        g.push(format!("HIST\t{line}"), &format!("hist-{kind}"), made >= 2);
        g.push(format!("S_C18\t{line}"), &format!("oracle-hist-{kind}"), made >= 2);
    }
    // threads sharing a context for `apply`, other contexts clearing the shared grid cache meanwhile
    for def in super::c02::OPS.iter().take(if thorough { 30 } else { 12 }).chain(["gridshift grids=test.datum", "deformation dt=10 grids=test.deformation"].iter()) {
        let set = super::c02::mixed_set(g, 50);
        g.push(format!("S_C18T\t{}\t{}", crate::wire::escape(def), crate::wire::data_of(&set)), "oracle-threads", true);
    }
    for kind in ["default", "new", "plain", "plain-new"] {
        g.push(format!("S_C18C\t{kind}"), "oracle-operators-under-macro-names", true);
    }
    // unknown names give errors wherever they stand: in a step that is never run (omitted in both directions), behind
    // modifiers, in the body of a macro
    for def in [
        "addone | _garbage omit_fwd omit_inv | addone", "addone | no:such omit_fwd omit_inv", "omit_fwd omit_inv nosuchop | addone", "addone | nosuchop omit_inv", "addone < nosuchop omit_inv",
        "nosuchop", "no:such", "addone | helmert x=1 omit_fwd omit_inv | nosuchop inv", "addone | utm omit_fwd omit_inv",
    ] {
        g.push(format!("S_C16E\t{}", esc(def).replace("\\u{7c}", "|")), "oracle-unknown-names-are-errors", true);
    }
    for kind in ["default", "plain"] {
        // a step omitted in both directions is a step all the same: listed, with its parameters
        let calls = vec![format!("O|{}", esc("addone | helmert x=3 omit_fwd omit_inv | addone inv")), "T|0".to_string(), "P|0|0".to_string(), "P|0|1".to_string(), "P|0|2".to_string(), format!("A|0|F|{data}"), format!("A|0|I|{data}")];
        let line = format!("{}\t{}", kind, calls.join("\t"));
        g.push(format!("HIST\t{line}"), "hist-doubly-omitted-step", true);
        g.push(format!("S_C18\t{line}"), "oracle-hist-doubly-omitted-step", true);
    }
    // a handle stays valid however many operations the context has instantiated since
    for kind in ["default", "plain", "plain-new"] {
        for many in [70usize, 130, 300] {
            let mut calls = vec![format!("O|{}", esc("helmert x=1")), format!("O|{}", esc("addone | addone"))];
            for k in 0..many {
                calls.push(format!("O|{}", esc(&format!("helmert x={}", k % 7))));
            }
            calls.push(format!("A|0|F|{data}"));
            calls.push(format!("A|1|I|{data}"));
            calls.push("T|0".to_string());
            calls.push("T|1".to_string());
            calls.push("P|1|1".to_string());
            calls.push(format!("A|{}|F|{data}", many + 1));
            let line = format!("{}\t{}", kind, calls.join("\t"));
            g.push(format!("HIST\t{line}"), "hist-many-instantiations", true);
            g.push(format!("S_C18\t{line}"), "oracle-hist-many-instantiations", true);
        }
    }
    for def in ["gridshift grids=test.datum", "deformation dt=10 grids=test.deformation", "gridshift grids=5458.gsb,test.datum"] {
        g.push(format!("S_C18L\t{}", crate::wire::escape(def)), "oracle-loading-while-clearing", true);
    }
    register_cases(g, if thorough { 3000 } else { 400 });
    redefinition_histories(g);
    // a second data directory (the user's) behind ./geodesy
    g.push("S_C18X".to_string(), "oracle-user-level-directory", true);
    // the grids behind the operators are shared by every context of the process: what they deliver for a point
    // does not depend on the points they served before (NTv2 hierarchies, children reaching the parent's border)
    super::grid::ntv2_cases(g, if thorough { 1500 } else { 150 }, 3);
    // a macro found in a file, used, then registered at run time under the same name: the registration wins
    // from then on (also for a macro that refers to it), the handles made before keep their behaviour
    for kind in ["plain", "plain-new"] {
        for (name, body) in [("stupid:way", "addone | addone"), ("stupid:addone", "addone inv"), ("stupid:way_three", "noop"), ("stupid:add_x", "helmert x=7")] {
            for via in [name.to_string(), format!("{name} inv"), format!("addone | {name}"), "m:via".to_string()] {
                let calls = vec![
                    format!("S|{}|{}", esc("m:via"), esc(&format!("{name} | noop"))),
                    format!("O|{}", esc(&via)),
                    format!("A|0|F|{data}"),
                    format!("S|{}|{}", esc(name), esc(body)),
                    format!("O|{}", esc(&via)),
                    format!("A|1|F|{data}"),
                    format!("A|0|F|{data}"),
                    format!("O|{}", esc(body)),
                    format!("A|2|F|{data}"),
                ];
                let line = format!("{}\t{}", kind, calls.join("\t"));
                g.push(format!("HIST\t{line}"), &format!("hist-file-then-registered-{kind}"), true);
                g.push(format!("S_C18\t{line}"), &format!("oracle-hist-{kind}"), true);
                if via == name {
                    g.push(format!("S_C18F\t{kind}\t{}\t{}", crate::wire::escape(name), crate::wire::escape(body)), "oracle-file-then-registered", true);
                }
            }
        }
    }
    // unknown names give errors, in every context: names that only begin like a known one
    for kind in ["default", "plain", "new", "plain-new"] {
        for name in ["stupid:way:nonexistent", "stupid:addone:v2", "stupid::way", "stupid:wa", "stupid:way_", "geo:in:out", "geo:", ":in", "nosuch:macro", "addon", "addonee",
            "stupid:way.v2", "stupid.v2:way_too", "stupid.md:way_too", "stupid:way.resource", "stupid.old:way", "nkg.x:etrs89",
            // (names are matched letter for letter: another letter case is another name)
            "Addone", "ADDONE", "Noop", "Cart", "UTM zone=32", "Helmert x=1", "Geo:in", "GEO:IN", "Stupid:way"] {
            g.push(format!("S_C18U\t{kind}\t{}", crate::wire::escape(name)), "oracle-unknown-names", true);
            g.push(format!("HIST\t{kind}\tO|{}\tO|addone %7c {} %7c addone", esc(name), esc(name)).replace("%7c", "\\u{7c}"), "hist-unknown-names", true);
        }
    }
    // shadowing holds for the steps of a pipeline as for a definition on its own
    for kind in ["default", "plain"] {
        for name in ["addone", "noop", "helmert", "cart", "utm", "myop", "inv2", "push", "pop", "stack"] {
            g.push(format!("S_C18P\t{kind}\t{name}"), "oracle-shadowing-in-pipelines", true);
        }
    }
    // registering a name again
    for kind in ["default", "new", "plain", "plain-new"] {
        for (name, b1, b2) in [
            ("m:x", "addone", "addone | addone"), ("m:x", "helmert x=3", "helmert x=5 y=1"), ("geo:in", "adapt from=neuf_deg", "adapt from=enuf_deg"),
            ("m:pipe", "addone | helmert x=1", "addone inv"), ("gis:out", "noop", "addone"),
        ] {
            g.push(format!("S_C18S\t{kind}\t{}\t{}\t{}", crate::wire::escape(name), crate::wire::escape(b1), crate::wire::escape(b2)), "oracle-re-registration", true);
        }
    }
}
