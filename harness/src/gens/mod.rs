//! Case generators, one module per property
use crate::rng::Rng;
use std::collections::{BTreeMap, HashSet};

pub mod c01;
pub mod c02;
pub mod c04;
pub mod c05;
pub mod c06;
pub mod c07;
pub mod c09;
pub mod c10;
pub mod c11;
pub mod c12;
pub mod c13;
pub mod c14;
pub mod proj;
pub mod c16;
pub mod c17;
pub mod c18;
pub mod c19;
pub mod c20;
pub mod grid;
pub mod lang;

pub struct Case {
    pub line: String,
}

pub struct Gen {
    pub rng: Rng,
    pub cases: Vec<Case>,
    pub classes: BTreeMap<String, usize>,
    pub distinct: HashSet<u64>,
    pub nontrivial_distinct: usize,
}

fn hash(s: &str) -> u64 {
    // FNV-1a
    let mut h: u64 = 0xcbf29ce484222325;
    for b in s.bytes() {
        h ^= b as u64;
        h = h.wrapping_mul(0x100000001b3);
    }
    h
}

impl Gen {
    pub fn new(seed: u64) -> Gen {
        Gen {
            rng: Rng(seed.wrapping_mul(0x9E3779B97F4A7C15) ^ 0x5DEECE66D),
            cases: vec![],
            classes: BTreeMap::new(),
            distinct: HashSet::new(),
            nontrivial_distinct: 0,
        }
    }
    /// record a case with its structural class; `nontrivial` by the property's own rule
    pub fn push(&mut self, line: String, class: &str, nontrivial: bool) {
        *self.classes.entry(class.to_string()).or_insert(0) += 1;
        if self.distinct.insert(hash(&line)) && nontrivial {
            self.nontrivial_distinct += 1;
        }
        self.cases.push(Case { line });
    }
    pub fn stats_json(&self) -> String {
        let classes: Vec<String> = self.classes.iter().map(|(k, v)| format!("\"{}\": {}", k, v)).collect();
        format!(
            "{{\"cases\": {}, \"distinct\": {}, \"distinct_nontrivial\": {}, \"classes\": {{{}}}}}\n",
            self.cases.len(),
            self.distinct.len(),
            self.nontrivial_distinct,
            classes.join(", ")
        )
    }
}

pub fn generate(prop: &str, tier: &str, g: &mut Gen) {
    let thorough = tier == "thorough";
    match prop {
        "C12" => c12::generate(g, thorough),
        "C16" => c16::generate(g, thorough),
        "C17" => c17::generate(g, thorough),
        "C18" => c18::generate(g, thorough),
        "C19" => c19::generate(g, thorough),
        "C20" => c20::generate(g, thorough),
        "C02" => c02::generate(g, thorough),
        "C03" => lang::generate_c03(g, thorough),
        "C04" => c04::generate(g, thorough),
        "C07" => c07::generate(g, thorough),
        "C08" => grid::generate_c08(g, thorough),
        "C09" => c09::generate(g, thorough),
        "C15" => grid::generate_c15(g, thorough),
        "C13" => c13::generate(g, thorough),
        "C10" => c10::generate(g, thorough),
        "C01" => c01::generate(g, thorough),
        "C14" => c14::generate(g, thorough),
        "C06" => c06::generate(g, thorough),
        "C05" => c05::generate(g, thorough),
        "C11" => c11::generate(g, thorough),
        _ => {}
    }
}

/// `OP` case line
pub fn op_line(kind: &str, resources: &[(String, String)], users: &[(String, String)], def: &str, mode: &str, dir: &str, data: &str) -> String {
    let mut f = vec!["OP".to_string(), kind.to_string(), resources.len().to_string()];
    for (n, b) in resources {
        f.push(crate::wire::escape(n));
        f.push(crate::wire::escape(b));
    }
    f.push(users.len().to_string());
    for (n, t) in users {
        f.push(crate::wire::escape(n));
        f.push(t.clone());
    }
    f.push(crate::wire::escape(def));
    f.push(mode.to_string());
    f.push(dir.to_string());
    f.push(data.to_string());
    f.join("\t")
}

/// operand set of `n` tuples with pairwise distinct small integer elements
pub fn probe_data(n: usize) -> String {
    let rows: Vec<[f64; 4]> = (0..n)
        .map(|i| {
            let b = (i as f64 + 1.0) * 10.0;
            [b + 1.0, b + 2.0, b + 3.0, b + 4.0]
        })
        .collect();
    crate::wire::data_of(&rows)
}

/// the shipped grid file serving a name (`Plain` looks files up by extension)
pub fn shipped_grid(name: &str) -> Option<(String, String, String)> {
    let ext = name.rsplit('.').next()?;
    let root = std::env::var("VERIF_REPO").unwrap_or_else(|_| "/repo".to_string());
    let bytes = std::fs::read(format!("{root}/geodesy/{ext}/{name}")).ok()?;
    if bytes.len() > 200_000 {
        return None;
    }
    let fmt = if ext == "gsb" { "ntv2" } else { "gravsoftb" };
    Some((name.to_string(), fmt.to_string(), grid::hex(&bytes)))
}

/// `OPG` case line: an `OP` case on a context serving the given grid files
pub fn opg_line(grids: &[(String, String, String)], def: &str, mode: &str, dir: &str, data: &str) -> String {
    let mut f = vec!["OPG".to_string(), grids.len().to_string()];
    for (n, fmt, payload) in grids {
        f.push(crate::wire::escape(n));
        f.push(fmt.clone());
        f.push(payload.clone());
    }
    f.push(op_line("default", &[], &[], def, mode, dir, data)["OP\t".len()..].to_string());
    f.join("\t")
}

/// the shipped grids named in a definition's `grids=` lists (names that are not shipped are simply
/// not served, as in `Plain`)
pub fn shipped_grids_of(def: &str) -> Vec<(String, String, String)> {
    let mut out: Vec<(String, String, String)> = vec![];
    for part in def.split("grids=").skip(1) {
        let list = part.split(|c: char| c.is_whitespace() || c == '|').next().unwrap_or("");
        for name in list.split(',') {
            let name = name.trim().trim_start_matches('@');
            if let Some(g) = shipped_grid(name) {
                if !out.iter().any(|x| x.0 == g.0) {
                    out.push(g);
                }
            }
        }
    }
    out
}
