//! Shared generator for the language-level properties (C03, C04, C16, C17, C18): structured
//! pipelines, macros and their textual renderings
use super::Gen;
use crate::rng::Rng;

#[derive(Clone, Debug)]
pub struct StepSpec {
    /// operator name and its own arguments, canonical spelling (`name k=v k=v flag`)
    pub core: String,
    pub inv: bool,
    pub omit_fwd: bool,
    pub omit_inv: bool,
}

impl StepSpec {
    pub fn plain(core: &str) -> StepSpec {
        StepSpec { core: core.to_string(), inv: false, omit_fwd: false, omit_inv: false }
    }
    pub fn flags(&self) -> String {
        format!(
            "{}{}{}",
            if self.inv { "I" } else { "-" },
            if self.omit_fwd { "F" } else { "-" },
            if self.omit_inv { "V" } else { "-" }
        )
    }
    /// canonical text: modifiers as bare suffixes
    pub fn canonical(&self) -> String {
        let mut s = self.core.clone();
        if self.inv {
            s += " inv";
        }
        if self.omit_fwd {
            s += " omit_fwd";
        }
        if self.omit_inv {
            s += " omit_inv";
        }
        s
    }
    /// without the directional omissions: the step as a stand-alone operator
    pub fn standalone(&self) -> String {
        if self.inv {
            format!("{} inv", self.core)
        } else {
            self.core.clone()
        }
    }
}

/// random placement and spelling of the modifiers of one step.  Returns the text and the
/// separator sugar to use in front of it ('|', '<' or '>'): when sugar is used the
/// corresponding omit modifier is NOT spelled out.
pub fn render_step(r: &mut Rng, st: &StepSpec, allow_sugar: bool) -> (String, char) {
    let mut words: Vec<String> = st.core.split(' ').map(|s| s.to_string()).collect();
    let mut sep = '|';
    let mut mods: Vec<&str> = vec![];
    if st.inv {
        mods.push("inv");
    }
    let mut of = st.omit_fwd;
    let mut oi = st.omit_inv;
    if allow_sugar && of && !oi && r.chance(1, 2) {
        sep = '<';
        of = false;
    } else if allow_sugar && oi && !of && r.chance(1, 2) {
        sep = '>';
        oi = false;
    }
    if of {
        mods.push("omit_fwd");
    }
    if oi {
        mods.push("omit_inv");
    }
    let mut prefix: Vec<String> = vec![];
    for m in mods {
        match r.below(4) {
            0 => prefix.push(m.to_string()),
            1 => {
                // infix: anywhere after the name
                let pos = 1 + r.below(words.len());
                words.insert(pos, m.to_string());
            }
            2 => words.push(m.to_string()),
            _ => {
                let pos = 1 + r.below(words.len());
                // (`true` in any case: the value of a flag is compared without regard to case)
                words.insert(pos, format!("{m}={}", r.pick(&["true", "true", "TRUE", "True", "tRuE"])));
            }
        }
    }
    prefix.extend(words);
    (prefix.join(" "), sep)
}

fn ws(r: &mut Rng) -> &'static str {
    *r.pick(&["", " ", "  ", " ", "\n", " \n ", "\t"])
}

/// render a pipeline with random separators / sugar / white space
pub fn render_pipeline(r: &mut Rng, steps: &[StepSpec], noisy: bool) -> String {
    let mut out = String::new();
    for (i, st) in steps.iter().enumerate() {
        let (text, sep) = render_step(r, st, true);
        if i > 0 || sep != '|' {
            if noisy {
                out += ws(r);
            } else if i > 0 {
                out += " ";
            }
            out.push(sep);
            if noisy {
                out += ws(r);
            } else {
                out += " ";
            }
        }
        out += &text;
    }
    // a lone step without separator is not a pipeline: force one for uniformity
    if !out.contains('|') && !out.contains('<') && !out.contains('>') {
        out += " |";
    }
    out
}

pub struct World {
    pub resources: Vec<(String, String)>,
    pub users: Vec<(String, String)>,
    /// names usable as step cores (leaves and macros), invertible ones
    pub cores: Vec<String>,
    pub oneway: Vec<String>,
}

pub fn leaf_cores() -> Vec<String> {
    // (the last three: what a step leaves in the third element, and shifts no binary fraction holds exactly, matter to
    // containers that store two elements, or 32-bit numbers)
    ["addone", "noop", "axisswap order=2,1", "add2", "helmert x=3", "helmert y=-2 z=5", "axisswap order=1,-2", "latlon", "axisswap order=3,1,2", "helmert x=0.1 y=0.7", "helmert z=7.3"]
        .iter()
        .map(|s| s.to_string())
        .collect()
}

fn random_mods(r: &mut Rng, core: &str, may_inv: bool) -> StepSpec {
    StepSpec {
        core: core.to_string(),
        inv: may_inv && r.chance(3, 10),
        omit_fwd: r.chance(15, 100),
        omit_inv: r.chance(15, 100),
    }
}

/// a world with `nmacros` macros, macro `k` referring only to leaves and macros `< k` (a DAG),
/// bodies single steps or pipelines with directional steps
pub fn make_world(r: &mut Rng, nmacros: usize) -> World {
    let mut w = World {
        resources: vec![],
        users: vec![("add2".to_string(), "u:add2".to_string()), ("oneway3".to_string(), "u:oneway3".to_string())],
        cores: leaf_cores(),
        oneway: vec!["oneway3".to_string()],
    };
    for k in 0..nmacros {
        let name = format!("m:a{k}");
        let body = if r.chance(1, 3) {
            // single step body (possibly itself inverted)
            let core = r.pick(&w.cores).clone();
            let st = StepSpec { core, inv: r.chance(1, 3), omit_fwd: false, omit_inv: false };
            render_step(r, &st, false).0
        } else {
            let len = 1 + r.below(4);
            let steps: Vec<StepSpec> = (0..len)
                .map(|_| {
                    let core = r.pick(&w.cores).clone();
                    random_mods(r, &core, true)
                })
                .collect();
            render_pipeline(r, &steps, false)
        };
        w.resources.push((name.clone(), body));
        w.cores.push(name);
    }
    w
}

pub fn random_steps(r: &mut Rng, w: &World, len: usize) -> Vec<StepSpec> {
    (0..len)
        .map(|_| {
            if r.chance(1, 12) {
                let core = r.pick(&w.oneway).clone();
                // a one-way operator must not be inverted, except (rarely) on purpose
                let mut s = random_mods(r, &core, false);
                s.inv = r.chance(1, 6);
                s
            } else {
                let core = r.pick(&w.cores).clone();
                random_mods(r, &core, true)
            }
        })
        .collect()
}

pub fn ctx_fields(kind: &str, w: &World) -> Vec<String> {
    let mut f = vec![kind.to_string(), w.resources.len().to_string()];
    for (n, b) in &w.resources {
        f.push(crate::wire::escape(n));
        f.push(crate::wire::escape(b));
    }
    f.push(w.users.len().to_string());
    for (n, t) in &w.users {
        f.push(crate::wire::escape(n));
        f.push(t.clone());
    }
    f
}

/// C03: random pipelines with modifiers in every position; correspondence on tree + values, and
/// the sequential-application oracle on the implementation
pub fn generate_c03(g: &mut Gen, thorough: bool) {
    let n = if thorough { 30000 } else { 2500 };
    for k in 0..n {
        let depth = g.rng.below(7);
        let w = make_world(&mut g.rng, depth);
        let len = if k % 50 == 0 { 0 } else { 1 + g.rng.below(12) };
        let steps = random_steps(&mut g.rng, &w, len);
        let noisy = g.rng.chance(1, 3);
        let def = if steps.is_empty() { " | ".to_string() } else { render_pipeline(&mut g.rng, &steps, noisy) };
        let dir = if g.rng.chance(1, 2) { "F" } else { "I" };
        let nops = *g.rng.pick(&[1usize, 1, 2, 3]);
        let data = super::probe_data(nops);
        let nmods = steps.iter().filter(|s| s.inv || s.omit_fwd || s.omit_inv).count();
        let class = format!(
            "len{}-macros{}-{}",
            match len {
                0 => "0",
                1..=3 => "1to3",
                4..=8 => "4to8",
                _ => "9plus",
            },
            if steps.iter().any(|s| s.core.starts_with("m:")) { "yes" } else { "no" },
            if nmods == 0 { "nomods" } else { "mods" }
        );
        let nontrivial = nmods >= 1 && steps.len() >= 2;
        let mut f = vec!["OP".to_string()];
        f.extend(ctx_fields("default", &w));
        f.push(crate::wire::escape(&def));
        f.push("both".to_string());
        f.push(dir.to_string());
        f.push(data.clone());
        g.push(f.join("\t"), &class, nontrivial);
        // oracle
        let mut f = vec!["S_C03".to_string()];
        f.extend(ctx_fields("default", &w));
        f.push(crate::wire::escape(&def));
        f.push(steps.len().to_string());
        for s in &steps {
            f.push(s.flags());
            f.push(crate::wire::escape(&s.core));
        }
        f.push(dir.to_string());
        f.push(data);
        g.push(f.join("\t"), &format!("oracle-{class}"), nontrivial);
    }
    // a pipeline is its steps as they are defined when it is instantiated: macros registered again in between
    super::c18::redefinition_histories(g);
    // macros taking arguments, the modifiers in every position (in front of the name included: the arguments
    // reach the body wherever the modifiers stand)
    {
        let mut w = make_world(&mut g.rng, 1);
        w.resources.push(("m:shift".to_string(), "helmert x=$east y=$north(1)".to_string()));
        w.resources.push(("m:two".to_string(), "addone | m:shift east=$e north=7".to_string()));
        let cores = ["m:shift east=5", "m:shift east=-2 north=3", "m:two e=4", "addone", "helmert z=2"];
        for k in 0..(if thorough { 4000 } else { 300 }) {
            let len = 1 + g.rng.below(3);
            let steps: Vec<StepSpec> = (0..len)
                .map(|i| {
                    let core = if i == 0 || g.rng.chance(1, 2) { cores[g.rng.below(3)] } else { cores[3 + g.rng.below(2)] };
                    let mut st = random_mods(&mut g.rng, core, true);
                    if k % 3 == 0 {
                        st.inv = true;
                    }
                    st
                })
                .collect();
            let def = render_pipeline(&mut g.rng, &steps, k % 5 == 0);
            let dir = if g.rng.chance(1, 2) { "F" } else { "I" };
            let data = super::probe_data(2);
            let mut f = vec!["OP".to_string()];
            f.extend(ctx_fields("default", &w));
            f.push(crate::wire::escape(&def));
            f.push("both".to_string());
            f.push(dir.to_string());
            f.push(data.clone());
            g.push(f.join("\t"), "macro-arguments-and-modifiers", true);
            let mut f = vec!["S_C03".to_string()];
            f.extend(ctx_fields("default", &w));
            f.push(crate::wire::escape(&def));
            f.push(steps.len().to_string());
            for s in &steps {
                f.push(s.flags());
                f.push(crate::wire::escape(&s.core));
            }
            f.push(dir.to_string());
            f.push(data);
            g.push(f.join("\t"), "oracle-macro-arguments-and-modifiers", true);
        }
    }
    stack_led_macros(g, thorough);
    // a step carrying `inv` is that step with its two directions exchanged - for every kind of step
    {
        let data = super::probe_data(2);
        let mut defs: Vec<String> = leaf_cores().into_iter().filter(|c| c != "add2").collect();
        for d in ["unitconvert xy_in=km xy_out=m", "unitconvert z_in=ft z_out=m xy_in=deg xy_out=rad", "adapt from=neuf_deg", "adapt to=enuf_deg from=neuf", "cart", "utm zone=32", "helmert x=1 rx=2 exact convention=position_vector"] {
            defs.push(d.to_string());
        }
        for d in defs {
            g.push(format!("S_INVMOD\t{}\t{}", crate::wire::escape(&d), data), "oracle-inv-modifier", true);
        }
    }
    // a step next to its own inverse is still two steps: both run (roundoff and all), both are counted
    let w = make_world(&mut g.rng, 2);
    let data = crate::wire::data_of(&[[0.1, 0.7, 1e-3, 2000.3], [1.0 / 3.0, -2.0 / 7.0, 1e15 + 0.5, 1e-9]]);
    for core in w.cores.clone() {
        for (first_inv, lead, trail) in [(false, false, false), (true, false, false), (false, true, false), (true, false, true), (false, true, true)] {
            let mut steps = vec![];
            if lead {
                steps.push(StepSpec { core: "addone".to_string(), inv: false, omit_fwd: false, omit_inv: false });
            }
            steps.push(StepSpec { core: core.clone(), inv: first_inv, omit_fwd: false, omit_inv: false });
            steps.push(StepSpec { core: core.clone(), inv: !first_inv, omit_fwd: false, omit_inv: false });
            if trail {
                steps.push(StepSpec { core: "helmert x=0.3".to_string(), inv: false, omit_fwd: false, omit_inv: false });
            }
            let def = render_pipeline(&mut g.rng, &steps, false);
            for dir in ["F", "I"] {
                let mut f = vec!["OP".to_string()];
                f.extend(ctx_fields("default", &w));
                f.push(crate::wire::escape(&def));
                f.push("both".to_string());
                f.push(dir.to_string());
                f.push(data.clone());
                g.push(f.join("\t"), "step-next-to-its-inverse", true);
                let mut f = vec!["S_C03".to_string()];
                f.extend(ctx_fields("default", &w));
                f.push(crate::wire::escape(&def));
                f.push(steps.len().to_string());
                for s in &steps {
                    f.push(s.flags());
                    f.push(crate::wire::escape(&s.core));
                }
                f.push(dir.to_string());
                f.push(data.clone());
                g.push(f.join("\t"), "oracle-step-next-to-its-inverse", true);
            }
        }
    }
}

/// macros whose body is a pipeline that starts with a stack operator: as steps of an enclosing pipeline they
/// are pipelines, not stack operators, in both directions
pub fn stack_led_macros(g: &mut Gen, thorough: bool) {
    {
        let mut w = make_world(&mut g.rng, 1);
        w.resources.push(("m:swap".to_string(), "push v_1 v_2 | pop v_1 | pop v_2".to_string()));
        w.resources.push(("m:sw2".to_string(), "stack push=1,2 | stack pop=1,2".to_string()));
        w.resources.push(("m:rot".to_string(), "stack push=1,2,3 | stack roll=3,1 | stack pop=3,2,1".to_string()));
        w.resources.push(("m:pz".to_string(), "pop v_3 omit_fwd | push v_3 omit_inv | addone | pop v_3".to_string()));
        let cores = ["m:swap", "m:sw2", "m:rot", "m:pz", "addone", "helmert x=10 y=20", "helmert z=2"];
        for k in 0..(if thorough { 3000 } else { 300 }) {
            let len = 2 + g.rng.below(3);
            let at = g.rng.below(len);
            let steps: Vec<StepSpec> = (0..len)
                .map(|i| {
                    let core = if i == at { cores[g.rng.below(4)] } else { cores[g.rng.below(7)] };
                    let mut st = random_mods(&mut g.rng, core, true);
                    if k % 2 == 0 {
                        st.omit_fwd = false;
                        st.omit_inv = false;
                    }
                    st
                })
                .collect();
            let def = render_pipeline(&mut g.rng, &steps, k % 5 == 0);
            let dir = if k % 3 == 0 { "F" } else { "I" };
            let data = super::probe_data(2);
            let mut f = vec!["OP".to_string()];
            f.extend(ctx_fields("default", &w));
            f.push(crate::wire::escape(&def));
            f.push("both".to_string());
            f.push(dir.to_string());
            f.push(data.clone());
            g.push(f.join("\t"), "macros-that-start-with-a-stack-operator", true);
            let mut f = vec!["S_C03".to_string()];
            f.extend(ctx_fields("default", &w));
            f.push(crate::wire::escape(&def));
            f.push(steps.len().to_string());
            for s in &steps {
                f.push(s.flags());
                f.push(crate::wire::escape(&s.core));
            }
            f.push(dir.to_string());
            f.push(data);
            g.push(f.join("\t"), "oracle-macros-that-start-with-a-stack-operator", true);
        }
    }
    // pipelines nested through macros, level upon level (well within what the library allows: its own limit is
    // there for definitions that call themselves): the steps in the order written, whatever the depth
    for depth in 1..=8usize {
        for dir in ["F", "I"] {
            let mut resources = vec![];
            for l in 0..depth {
                let inner = if l + 1 == depth { "helmert x=0.25 | addone".to_string() } else { format!("n:l{}", l + 1) };
                resources.push((format!("n:l{l}"), format!("helmert y={} | {inner} | addone inv", l + 1)));
            }
            // flattened: helmert y=1 .. helmert y=depth, helmert x=0.25, addone, then depth times addone inv
            let mut flat: Vec<(String, String)> = (0..depth).map(|l| (String::new(), format!("helmert y={}", l + 1))).collect();
            flat.push((String::new(), "helmert x=0.25".to_string()));
            flat.push((String::new(), "addone".to_string()));
            for _ in 0..depth {
                flat.push(("I".to_string(), "addone".to_string()));
            }
            let mut f = vec!["default".to_string(), resources.len().to_string()];
            for (n, b) in &resources {
                f.push(crate::wire::escape(n));
                f.push(crate::wire::escape(b));
            }
            f.push("0".to_string());
            let data = super::probe_data(2);
            let mut o = vec!["OP".to_string()];
            o.extend(f.clone());
            o.push(crate::wire::escape("noop | n:l0 | noop"));
            o.push("both".to_string());
            o.push(dir.to_string());
            o.push(data.clone());
            g.push(o.join("\t"), "macros-nested-deep", true);
            let mut o = vec!["S_C03".to_string()];
            o.extend(f);
            o.push(crate::wire::escape("noop | n:l0 | noop"));
            o.push((flat.len() + 2).to_string());
            o.push(String::new());
            o.push("noop".to_string());
            for (fl, core) in &flat {
                o.push(fl.clone());
                o.push(crate::wire::escape(core));
            }
            o.push(String::new());
            o.push("noop".to_string());
            o.push(dir.to_string());
            o.push(data);
            g.push(o.join("\t"), "oracle-macros-nested-deep", true);
        }
    }
}
