//! Verification harness for busstoptaktik/geodesy.
//!
//!   gvharness run <property> <tier> <seed> <outdir>   generate cases, run them on the real code in a
//!                                                     killable worker, write cases.txt / impl.txt / gen.json
//!   gvharness worker                                  read case lines on stdin, answer on stdout
//!   gvharness exec <file>                             run the case lines of a file in-process (replay)
mod exec;
mod gens;
pub mod alloc_count {
    //! a counting allocator: the peak of live heap bytes, and a cap beyond which allocation fails
    //! (the worker then dies and the supervisor reports CRASH)
    use std::alloc::{GlobalAlloc, Layout, System};
    use std::sync::atomic::{AtomicUsize, Ordering::Relaxed};
    pub static CUR: AtomicUsize = AtomicUsize::new(0);
    pub static PEAK: AtomicUsize = AtomicUsize::new(0);
    pub static CAP: AtomicUsize = AtomicUsize::new(usize::MAX);
    pub struct Counting;
    fn add(n: usize) -> bool {
        let now = CUR.fetch_add(n, Relaxed) + n;
        if now > CAP.load(Relaxed) {
            CUR.fetch_sub(n, Relaxed);
            return false;
        }
        PEAK.fetch_max(now, Relaxed);
        true
    }
    unsafe impl GlobalAlloc for Counting {
        unsafe fn alloc(&self, l: Layout) -> *mut u8 {
            if !add(l.size()) {
                return std::ptr::null_mut();
            }
            System.alloc(l)
        }
        unsafe fn dealloc(&self, p: *mut u8, l: Layout) {
            CUR.fetch_sub(l.size(), Relaxed);
            System.dealloc(p, l)
        }
        unsafe fn realloc(&self, p: *mut u8, l: Layout, new: usize) -> *mut u8 {
            if new > l.size() && !add(new - l.size()) {
                return std::ptr::null_mut();
            }
            if new < l.size() {
                CUR.fetch_sub(l.size() - new, Relaxed);
            }
            System.realloc(p, l, new)
        }
    }
    /// live bytes now; resets the peak to it
    pub fn mark() -> usize {
        let c = CUR.load(Relaxed);
        PEAK.store(c, Relaxed);
        c
    }
    pub fn peak() -> usize {
        PEAK.load(Relaxed)
    }
}
#[global_allocator]
static GLOBAL: alloc_count::Counting = alloc_count::Counting;
mod oracles;
mod rng;
mod wire;

use std::io::{BufRead, BufReader, Write};
use std::process::{Child, ChildStdin, Command, Stdio};
use std::sync::mpsc::{channel, Receiver, RecvTimeoutError};
use std::time::Duration;

fn worker() {
    std::panic::set_hook(Box::new(|_| {}));
    // no case needs more than this; a decoder that allocates from an untrusted count dies here
    alloc_count::CAP.store(3 << 30, std::sync::atomic::Ordering::Relaxed);
    let stdin = std::io::stdin();
    let stdout = std::io::stdout();
    for line in stdin.lock().lines() {
        let Ok(line) = line else { break };
        let res = std::panic::catch_unwind(|| exec::exec_line(&line));
        let out = match res {
            Ok(s) => s,
            Err(e) => {
                let msg = if let Some(s) = e.downcast_ref::<&str>() {
                    s.to_string()
                } else if let Some(s) = e.downcast_ref::<String>() {
                    s.clone()
                } else {
                    "?".to_string()
                };
                format!("PANIC {}", wire::escape(&msg.chars().take(120).collect::<String>()))
            }
        };
        let mut o = stdout.lock();
        let _ = writeln!(o, "{}", out.replace('\n', " "));
        let _ = o.flush();
    }
}

struct Worker {
    child: Child,
    stdin: ChildStdin,
    rx: Receiver<String>,
}

fn spawn_worker() -> Worker {
    let exe = std::env::current_exe().expect("current_exe");
    let mut child = Command::new(exe)
        .arg("worker")
        .env_remove("RUST_BACKTRACE")
        .current_dir(std::env::var("VERIF_REPO").unwrap_or_else(|_| "/repo".to_string()))
        .env("RUST_LOG", "off")
        .stdin(Stdio::piped())
        .stdout(Stdio::piped())
        .stderr(Stdio::null())
        .spawn()
        .expect("spawn worker");
    let stdin = child.stdin.take().unwrap();
    let stdout = child.stdout.take().unwrap();
    let (tx, rx) = channel();
    std::thread::spawn(move || {
        let r = BufReader::new(stdout);
        for line in r.lines() {
            let Ok(line) = line else { break };
            if tx.send(line).is_err() {
                break;
            }
        }
    });
    Worker { child, stdin, rx }
}

/// run the case lines through killable workers; HANG and CRASH are results like any other
pub fn run_cases(lines: &[String], timeout_ms: u64) -> Vec<String> {
    let mut w = spawn_worker();
    let mut out = Vec::with_capacity(lines.len());
    for line in lines {
        let sent = writeln!(w.stdin, "{}", line).and_then(|_| w.stdin.flush());
        if sent.is_err() {
            let _ = w.child.kill();
            let _ = w.child.wait();
            w = spawn_worker();
            out.push("CRASH".to_string());
            continue;
        }
        match w.rx.recv_timeout(Duration::from_millis(timeout_ms)) {
            Ok(res) => out.push(res),
            Err(RecvTimeoutError::Timeout) => {
                let _ = w.child.kill();
                let _ = w.child.wait();
                w = spawn_worker();
                out.push("HANG".to_string());
            }
            Err(RecvTimeoutError::Disconnected) => {
                let _ = w.child.kill();
                let _ = w.child.wait();
                w = spawn_worker();
                out.push("CRASH".to_string());
            }
        }
    }
    let _ = w.child.kill();
    let _ = w.child.wait();
    out
}

fn main() {
    let args: Vec<String> = std::env::args().collect();
    match args.get(1).map(|s| s.as_str()) {
        Some("worker") => worker(),
        Some("exec") => {
            std::panic::set_hook(Box::new(|_| {}));
            let text = std::fs::read_to_string(&args[2]).expect("read");
            for line in text.lines() {
                let res = std::panic::catch_unwind(|| exec::exec_line(line));
                println!("{}", res.unwrap_or_else(|_| "PANIC".to_string()));
            }
        }
        Some("run") => {
            let prop = &args[2];
            let tier = &args[3];
            let seed: u64 = args[4].parse().expect("seed");
            let outdir = std::path::PathBuf::from(&args[5]);
            std::fs::create_dir_all(&outdir).expect("outdir");
            let mut g = gens::Gen::new(seed);
            // the corpus of minimised past failures runs first
            let corpus = std::path::Path::new("corpus").join(format!("{prop}.txt"));
            if let Ok(text) = std::fs::read_to_string(&corpus) {
                for l in text.lines() {
                    if !l.trim().is_empty() && !l.starts_with('#') {
                        g.push(l.to_string(), "corpus", true);
                    }
                }
            }
            gens::generate(prop, tier, &mut g);
            let lines: Vec<String> = g.cases.iter().map(|c| c.line.clone()).collect();
            let timeout: u64 = std::env::var("VERIF_CASE_TIMEOUT_MS").ok().and_then(|s| s.parse().ok()).unwrap_or(4000);
            // spread over workers
            let nthreads = std::thread::available_parallelism().map(|n| n.get()).unwrap_or(4).min(16);
            let chunk = lines.len().div_ceil(nthreads.max(1)).max(1);
            let mut handles = vec![];
            for part in lines.chunks(chunk) {
                let part: Vec<String> = part.to_vec();
                handles.push(std::thread::spawn(move || run_cases(&part, timeout)));
            }
            let mut results = vec![];
            for h in handles {
                results.extend(h.join().expect("join"));
            }
            std::fs::write(outdir.join("cases.txt"), lines.join("\n") + "\n").expect("write cases");
            std::fs::write(outdir.join("impl.txt"), results.join("\n") + "\n").expect("write impl");
            std::fs::write(outdir.join("gen.json"), g.stats_json()).expect("write gen");
        }
        _ => {
            eprintln!("usage: gvharness run <prop> <tier> <seed> <outdir> | worker | exec <file>");
            std::process::exit(2);
        }
    }
}
